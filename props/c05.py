"""C05 -- dense labels and sparse detections describe the same events for any index.

(a) converters alone on EVERY valid sparse output for small n (all changepoint subsets,
all sets of pairwise disjoint non-empty intervals incl. adjacent / length-1 / touching 0
and n, all column-subset assignments) x index kinds x column labels;
(b) through every detector on every small-alphabet series x index kinds.
Oracle: positional labelling model; exact round trip.
"""

from __future__ import annotations

import itertools

import numpy as np
import pandas as pd

from smc import core, dets, util

ID = "C05"
LEVEL = "exploration"
RULE = (
    "family 'conv': one case = (detector base class, hand-built valid sparse output, index kind, column labels); "
    "every changepoint subset (n<=9/11), every set of disjoint non-empty intervals (n<=8/9), every such set x every "
    "assignment of non-empty column subsets (p=2: n<=4/5, p=3: n<=3/4) is enumerated. family 'det': one case = "
    "(detector, series over the alphabet, index kind). Non-trivial = at least one event in the sparse output."
)
ASSUMPTIONS = [
    "hand-built sparse outputs are formatted with the classes' own _format_sparse_output (the format detectors emit; its structure is C04's subject)",
    "affected columns are compared as sets (the statement allows any order)",
    "supported index kinds: RangeIndex 0..n, RangeIndex with offset, RangeIndex with step 2, daily DatetimeIndex, monthly PeriodIndex; on reduced families also tz-aware (across a DST change) and irregular DatetimeIndex, named RangeIndex, irregular integer index, quarterly PeriodIndex",
]


def interval_sets(n):
    """All sets of pairwise disjoint non-empty intervals inside [0, n], as sorted tuples."""
    out = []

    def rec(pos, cur):
        out.append(tuple(cur))
        for s in range(pos, n):
            for e in range(s + 1, n + 1):
                cur.append((s, e))
                rec(e, cur)
                cur.pop()

    rec(0, [])
    return out


def classes():
    from skchange.anomaly_detectors.base import CollectiveAnomalyDetector, SubsetCollectiveAnomalyDetector
    from skchange.change_detectors.base import ChangeDetector

    return {"change": ChangeDetector, "collective": CollectiveAnomalyDetector, "subset": SubsetCollectiveAnomalyDetector}


def norm_events(ev, kind):
    if kind == "subset":
        return [(s, e, tuple(sorted(c))) for s, e, c in ev]
    return list(ev)


def check_roundtrip(acc, case, key, cls, kind, events, index, columns, n, p):
    if kind == "change":
        y = cls._format_sparse_output(list(events))
    elif kind == "collective":
        y = cls._format_sparse_output(list(events))
    else:
        y = cls._format_sparse_output([(s, e, list(c)) for s, e, c in events])
    dense = cls.sparse_to_dense(y, index, columns)
    model = dets.dense_model(events, kind, n, p)
    if not isinstance(dense, pd.DataFrame) or not dense.index.equals(index) or tuple(dense.index.names) != tuple(index.names) or len(dense) != n:
        acc.violation("dense-index", case, f"sparse_to_dense output index {getattr(dense, 'index', None)!r} != given index", key)
        return
    if dense.shape != model.shape or not np.array_equal(dense.to_numpy(), model):
        acc.violation("dense-labels", case,
                      f"sparse_to_dense gives {dense.to_numpy().T.tolist()}, positional model {model.T.tolist()} for events {events}", key,
                      expected=model.T.tolist(), observed=dense.to_numpy().T.tolist())
        return
    want_cols = ["labels"] if kind != "subset" else [f"labels_{c}" for c in columns]
    if list(dense.columns) != want_cols:
        acc.violation("dense-columns", case, f"dense columns {list(dense.columns)} != {want_cols}", key)
        return
    if any(not pd.api.types.is_integer_dtype(dt) for dt in dense.dtypes):  # any integer dtype satisfies the statement
        acc.violation("dense-dtype", case, f"dense dtypes {list(map(str, dense.dtypes))}", key)
        return
    back = cls.dense_to_sparse(dense)
    got = dets.sparse_events(back, kind)
    if norm_events(got, kind) != norm_events(events, kind):
        acc.violation("roundtrip", case, f"dense_to_sparse(sparse_to_dense(y)) = {got}, y = {list(events)}", key,
                      expected=list(events), observed=got)
        return
    probs = dets.wellformed(back, kind, n, p)
    if probs:
        acc.violation("roundtrip-format", case, f"dense_to_sparse output malformed: {probs[:2]}", key)


def check_case(acc, case):
    acc.ev()
    acc.sample(case)
    fam = case["fam"]
    try:
        with core.case_timer():
            if fam == "conv":
                kind, n, p = case["kind"], case["n"], case.get("p", 1)
                key = {"fam": fam, "kind": kind, "default_index": case["index"] == "range"}
                cls = classes()[kind]
                index = dets.make_index(case["index"], n)
                columns = pd.Index(dets.column_labels(case["cols"], p))
                ev = case["events"]
                events = [tuple(e) if kind != "change" else e for e in ev]
                if kind == "subset":
                    events = [(s, e, tuple(c)) for s, e, c in ev]
                check_roundtrip(acc, case, key, cls, kind, events, index, columns, n, p)
                if events:
                    acc.nt()
                acc.outcome(f"{kind}:K={len(events)}")
            else:
                name = case["det"]
                kind = dets.kind_of(name)
                key = {"fam": fam, "det": name, "default_index": case["index"] == "range"}
                X = dets.frame(case["x"], case["index"], case["cols"])
                names_before = tuple(X.index.names)
                n, p = X.shape
                det = dets.make_detector(name)
                det.fit(X)
                y = det.predict(X)
                events = dets.sparse_events(y, kind)
                dense = det.transform(X)
                model = dets.dense_model(events, kind, n, p)
                if not dense.index.equals(X.index) or tuple(dense.index.names) != tuple(names_before) or tuple(X.index.names) != tuple(names_before):
                    acc.violation("transform-index", case, f"transform(X).index {dense.index!r} != X.index", key)
                    return
                if dense.shape != model.shape or not np.array_equal(dense.to_numpy(), model):
                    acc.violation("transform-labels", case,
                                  f"{name}.transform gives {dense.to_numpy().T.tolist()}, predict gives {events} -> model {model.T.tolist()}", key)
                    return
                back = dets.sparse_events(type(det).dense_to_sparse(dense), kind)
                if norm_events(back, kind) != norm_events(events, kind):
                    acc.violation("transform-roundtrip", case, f"{name}: dense_to_sparse(transform(X)) = {back}, predict(X) = {events}", key)
                    return
                if events:
                    acc.nt()
                acc.outcome(f"{name}:K={min(len(events), 4)}")
    except core.CaseTimeout:
        acc.violation("timeout", case, "call did not return", {"fam": fam})
    except Exception as e:
        acc.violation("raised", case, f"{type(e).__name__}: {e}",
                      {"fam": fam, "exc": type(e).__name__, "who": case.get("kind", case.get("det")), "default_index": case["index"] == "range"})


def conv_cases(tier):
    q = tier == "quick"
    idx_cols = [(i, c) for i in dets.INDEX_KINDS for c in ("default", "str")]
    for n in range(1, (9 if q else 11) + 1):
        for k in range(0, n):
            for cps in itertools.combinations(range(1, n), k):
                for ik in dets.INDEX_KINDS:
                    yield {"fam": "conv", "kind": "change", "n": n, "events": list(cps), "index": ik, "cols": "default"}
    for n in range(1, (8 if q else 9) + 1):
        for s in interval_sets(n):
            for ik in dets.INDEX_KINDS:
                yield {"fam": "conv", "kind": "collective", "n": n, "events": [list(e) for e in s], "index": ik, "cols": "default"}
    # further index kinds on the smaller sizes
    for n in range(1, (5 if q else 6) + 1):
        for ik in dets.INDEX_KINDS_EXTRA:
            for k in range(0, n):
                for cps in itertools.combinations(range(1, n), k):
                    yield {"fam": "conv", "kind": "change", "n": n, "events": list(cps), "index": ik, "cols": "default"}
            for s in interval_sets(n):
                yield {"fam": "conv", "kind": "collective", "n": n, "events": [list(e) for e in s], "index": ik, "cols": "default"}
                if n <= 3:
                    for cols in itertools.product([(0,), (1,), (0, 1), (1, 0)], repeat=len(s)):
                        yield {"fam": "conv", "kind": "subset", "n": n, "p": 2, "events": [[a, b, list(c)] for (a, b), c in zip(s, cols)],
                               "index": ik, "cols": "str"}
    # MANY events in one output (up to 12 / 14, far beyond what the complete small spaces hold): every subset of the
    # positions of a series of length 12 (thorough 14) as length-1 anomalies -- all adjacency patterns of up to n touching
    # anomalies -- and, on a fixed half of them, pairs of positions merged into length-2 anomalies
    nn = 12 if q else 14
    colsets = [(0,), (1,), (0, 1), (1, 0), (2,), (2, 0)]
    for mask in range(1, 2 ** nn):
        pos = [i for i in range(nn) if mask >> i & 1]
        ev1 = [[i, i + 1] for i in pos]
        merged, i = [], 0
        while i < len(pos):  # merge a position with its right neighbour when both are set and the left one is even
            if i + 1 < len(pos) and pos[i + 1] == pos[i] + 1 and pos[i] % 2 == 0:
                merged.append([pos[i], pos[i] + 2]); i += 2
            else:
                merged.append([pos[i], pos[i] + 1]); i += 1
        for ev in (ev1, merged) if mask % 2 else (ev1,):
            ik = ("range", "datetime", "offset", "zstep3")[mask % 4]
            yield {"fam": "conv", "kind": "collective", "n": nn, "events": ev, "index": ik, "cols": "default"}
            yield {"fam": "conv", "kind": "subset", "n": nn, "p": 3, "events": [[a, b, list(colsets[(a + j) % 6])] for j, (a, b) in enumerate(ev)],
                   "index": ik, "cols": "str" if mask % 3 == 0 else "default"}
    for p, top in ((1, 5), (2, 4 if q else 5), (3, 3 if q else 4)):
        subsets = [c for r in range(1, p + 1) for c in itertools.combinations(range(p), r)]
        # also reversed column order (icolumns are listed by decreasing saving, not sorted)
        subsets = subsets + [tuple(reversed(c)) for c in subsets if len(c) > 1]
        for n in range(1, top + 1):
            for s in interval_sets(n):
                for cols in itertools.product(subsets, repeat=len(s)):
                    ev = [[a, b, list(c)] for (a, b), c in zip(s, cols)]
                    for ik, cl in idx_cols:
                        if (len(s) + n) % 2 and cl == "str" and ik not in ("range", "datetime"):
                            continue
                        yield {"fam": "conv", "kind": "subset", "n": n, "p": p, "events": ev, "index": ik, "cols": cl}
                    # integer column labels that are not the positions 0..p-1 (affected columns are POSITIONS)
                    if p >= 2 and n <= top - 1:
                        for ik, cl in (("range", "revint"), ("datetime", "offint"), ("offset", "revint"), ("range", "offint")):
                            yield {"fam": "conv", "kind": "subset", "n": n, "p": p, "events": ev, "index": ik, "cols": cl}


def det_cases(tier, seed):
    q = tier == "quick"
    a, b = util.seed_affine(seed)
    alph = (0, 4)
    alph_s = (a, a + 4 * b)
    for name in dets.DETECTORS:
        if name == "MVCAPA":
            continue
        for n in ((6, 7) if q else (6, 7, 8, 9)):
            for xs in itertools.product(alph, repeat=n):
                for ik in dets.INDEX_KINDS:
                    yield {"fam": "det", "det": name, "x": [[v] for v in xs], "index": ik, "cols": "default"}
        for xs in itertools.product(alph_s, repeat=6):
            yield {"fam": "det", "det": name, "x": [[v] for v in xs], "index": "offset", "cols": "str"}
        for xs in itertools.product(alph, repeat=6):
            for ik in dets.INDEX_KINDS_EXTRA:
                yield {"fam": "det", "det": name, "x": [[v] for v in xs], "index": ik, "cols": "default"}
    for n in ((4, 5) if q else (4, 5, 6)):
        for flat in itertools.product(alph, repeat=2 * n):
            x = [list(flat[2 * i:2 * i + 2]) for i in range(n)]
            for ik in dets.INDEX_KINDS:
                yield {"fam": "det", "det": "MVCAPA", "x": x, "index": ik, "cols": "str" if ik == "datetime" else "default"}
            if n <= 5:
                yield {"fam": "det", "det": "MVCAPA", "x": x, "index": "range", "cols": "revint"}
                yield {"fam": "det", "det": "MVCAPA", "x": x, "index": "datetime", "cols": "offint"}
    for name in ("PELT", "CAPA", "CircularBinarySegmentation"):
        for flat in itertools.product(alph, repeat=8):
            x = [list(flat[2 * i:2 * i + 2]) for i in range(4)]
            yield {"fam": "det", "det": name, "x": x, "index": "period", "cols": "str"}


FAMILIES = {"conv": lambda t, s: conv_cases(t), "det": lambda t, s: det_cases(t, s)}
NSH = {"conv": 48, "det": 64}


def shards(tier, seed):
    return [(fam, tier, seed, i, k) for fam, k in NSH.items() for i in range(k)]


def bounds(tier, seed):
    return {"conv": "every subset of 12 (thorough 14) positions as touching length-1 / length-2 anomalies (collective and 3-column subset outputs); changepoint subsets n<=9 (quick)/11; interval sets n<=8/9; subset variant p=1 n<=5, p=2 n<=4/5, p=3 n<=3/4 (all non-empty column subsets, both column orders)",
            "index_kinds": list(dets.INDEX_KINDS), "index_kinds_on_reduced_families": list(dets.INDEX_KINDS_EXTRA), "column_labels": ["default ints", "strings", "integers p-1..0 (reduced families)", "integers 1..p (reduced families)"],
            "det": "6 univariate detectors on all (0,4) series n in (6,7) quick / (6..9) thorough x 5 index kinds; MVCAPA on all 2-column (0,4) series n in (4,5)/(4,5,6)"}


def run_shard(shard):
    fam, tier, seed, i, k = shard
    acc = core.Acc()
    for j, case in enumerate(FAMILIES[fam](tier, seed)):
        if j % k == i:
            check_case(acc, case)
    return acc


def replay(case):
    acc = core.Acc()
    check_case(acc, case)
    return acc.violations
