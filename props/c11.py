"""C11 -- outputs do not depend on how the same numbers are passed in (Mode A).

Differential against the canonical representation (float64 DataFrame, RangeIndex 0..n,
default columns) for every detector / scorer x container x dtype x index kind x column
labels x entry point x every small-alphabet series.
"""

from __future__ import annotations

import itertools
import zlib

import numpy as np
import pandas as pd

from smc import core, dets, util

ID = "C11"
LEVEL = "exploration"
RULE = (
    "one case = (detector or scorer, series over the alphabet, representation = container x dtype x index kind x "
    "column labels). For detectors four pipelines are run per case and compared with the canonical "
    "representation: fit(R).predict/transform/transform_scores(R); fit(canonical).predict(R); "
    "fit(R[:k]).update(R[k:]).predict(R); for scorers fit(R).evaluate(all admissible cuts). The full "
    "representation grid (57 for p=1, incl. Fortran-ordered and strided arrays and five further index kinds) is used for n=6, a reduced grid of 10 for the other lengths. "
    "Non-trivial = the canonical run reports at least one event (detectors) / all (scorers)."
)
ASSUMPTIONS = [
    "values are integers in float64 or int64, so the conversion is exact and outputs are compared exactly (scores with 1e-12)",
    "an ndarray is the same data as a DataFrame with the default RangeIndex (also for update, where the default index of the new rows overlaps the old ones)",
    "for update with pandas input the new rows continue the index of the fitted rows",
]

NARROW = ("uint8", "int8", "int32", "float32")
REPS_P1 = (
    [("df", dt, ik, cl) for dt in ("float64", "int64") for ik in dets.INDEX_KINDS for cl in ("default", "str")]
    + [("series", dt, ik, nm) for dt in ("float64", "int64") for ik in dets.INDEX_KINDS for nm in ("default", "str")]
    + [("nd2", dt, "range", "default") for dt in ("float64", "int64")]
    + [("nd1", dt, "range", "default") for dt in ("float64", "int64")]
    + [("nd2F", "float64", "range", "default"), ("nd2S", "float64", "range", "default"), ("nd2S", "int64", "range", "default")]
    + [("df", "float64", ik, "default") for ik in dets.INDEX_KINDS_EXTRA] + [("series", "int64", ik, "str") for ik in dets.INDEX_KINDS_EXTRA]
    # narrow and unsigned element types (the alphabet is exactly representable in all of them)
    + [(c, dt, "range", "default") for c in ("nd2", "df") for dt in NARROW]
    + [("df", "float64", "range", "offint"), ("df", "int64", "datetime", "offint")]
)
# scorers never look at the index: two index kinds suffice
REPS_SCORER = [r for r in REPS_P1 if r[0].startswith("nd") or r[2] in ("range", "datetime")]
REPS_P1_SMALL = [
    ("nd2", "float64", "range", "default"), ("nd1", "int64", "range", "default"), ("nd2", "int64", "range", "default"),
    ("series", "int64", "datetime", "str"), ("series", "float64", "offset", "default"),
    ("df", "int64", "offset", "str"), ("df", "float64", "period", "default"), ("df", "float64", "step2", "str"),
    ("df", "int64", "range", "default"), ("df", "float64", "datetime", "default"),
]
REPS_P2 = (
    [("df", dt, ik, cl) for dt in ("float64", "int64") for ik in dets.INDEX_KINDS for cl in ("default", "str")]
    + [("nd2", dt, "range", "default") for dt in ("float64", "int64")]
    + [("nd2F", "float64", "range", "default"), ("nd2F", "int64", "range", "default"), ("nd2S", "float64", "range", "default")]
    + [(c, dt, "range", "default") for c in ("nd2", "df") for dt in NARROW]
    # integer column labels that are not the positions 0..p-1
    + [("df", "float64", "range", "revint"), ("df", "int64", "datetime", "offint"), ("df", "float64", "offset", "offint")]
)


def represent(X, rep, lo=0, hi=None, total=None):
    """Rows lo:hi of X in the given representation; the index is that of rows lo:hi of the full index."""
    cont, dt, ik, cl = rep
    X = np.asarray(X)
    if X.ndim == 1:
        X = X.reshape(-1, 1)
    n, p = X.shape
    hi = n if hi is None else hi
    vals = X[lo:hi].astype(dt)
    if cont == "nd2":
        return vals
    if cont == "nd2F":  # Fortran-ordered array
        return np.asfortranarray(vals)
    if cont == "nd2S":  # non-contiguous view (every second row / column of a larger array)
        big = np.full((2 * vals.shape[0], 2 * vals.shape[1]), -77, dtype=dt)
        big[::2, ::2] = vals
        return big[::2, ::2]
    if cont == "nd1":
        return vals[:, 0]
    index = dets.make_index(ik, n)[lo:hi]
    if cont == "series":
        return pd.Series(vals[:, 0], index=index, name=None if cl == "default" else "s")
    return pd.DataFrame(vals, index=index, columns=dets.column_labels(cl, p))


CANON = ("df", "float64", "range", "default")


def expected_index(rep, n):
    if rep[0].startswith("nd"):
        return pd.RangeIndex(n)
    return dets.make_index(rep[2], n)


def fitted_params(det):
    out = {}
    for k, v in vars(det).items():
        if k.endswith("_") and not k.startswith("_") and isinstance(v, (float, int, np.floating, np.integer)):
            out[k] = float(v)
    return out


def extra_kw(name):
    """Fixed NON-INTEGER baseline parameters, so that a dtype- or container-dependent treatment of a
    hyper-parameter (e.g. casting it to the dtype of the data) is visible."""
    from skchange.costs import L2Cost

    if name in ("CAPA", "MVCAPA"):
        return dict(collective_saving=L2Cost(param=0.5), point_saving=L2Cost(param=0.5))
    return {}


def observe(name, X, rep, pipeline, k=None):
    """Run one pipeline; returns a dict of plain observations (or {'exc': name})."""
    kind = dets.kind_of(name)
    det = dets.make_detector(name, **extra_kw(name))
    n = len(X)
    full = represent(X, rep)
    full0 = full.copy()
    names0 = tuple(full.index.names) if isinstance(full, (pd.Series, pd.DataFrame)) else None  # (copies may share the Index object)
    try:
        if pipeline == "same":
            det.fit(full)
        elif pipeline == "canon-fit":
            det.fit(represent(X, CANON))
        else:
            det.fit(represent(X, rep, 0, k))
            det.update(represent(X, rep, k, n))
        y = det.predict(full)
        obs = {"events": dets.sparse_events(y, kind), "fitted": fitted_params(det)}
        sc = getattr(det, "scores", None)
        if sc is not None:
            obs["scores_attr"] = np.asarray(sc, dtype=float)
        if pipeline == "same":
            d = det.transform(full)
            obs["dense"] = d.to_numpy()
            obs["dense_index_ok"] = bool(d.index.equals(expected_index(rep, n)) and tuple(d.index.names) == tuple(expected_index(rep, n).names))
            try:
                ts = det.transform_scores(full)
                obs["tscores"] = np.asarray(ts, dtype=float)
                obs["tscores_index_ok"] = bool(ts.index.equals(expected_index(rep, n)) and tuple(ts.index.names) == tuple(expected_index(rep, n).names))
            except NotImplementedError:
                pass
        same_input = np.array_equal(np.asarray(full), np.asarray(full0))
        if isinstance(full, (pd.Series, pd.DataFrame)):
            same_input = same_input and full.index.equals(full0.index) and tuple(full.index.names) == names0
        if not same_input:
            return {"exc": "InputModified: the data object passed in was modified in place"}
        return obs
    except Exception as e:
        return {"exc": f"{type(e).__name__}: {str(e)[:150]}"}


def same_obs(a, b):
    if ("exc" in a) != ("exc" in b):
        return "exception" if "exc" in a else "canonical raised"
    if "exc" in a:
        return None if a["exc"].split(":")[0] == b["exc"].split(":")[0] else "different exception"
    for k in b:
        if k.endswith("_index_ok"):
            continue
        if k not in a:
            return f"missing {k}"
        if k == "events":
            if a[k] != b[k]:
                return f"events {a[k]} vs canonical {b[k]}"
        elif k == "fitted":
            if set(a[k]) != set(b[k]) or any(not util.close(a[k][x], b[k][x], 1e-12) for x in b[k]):
                return f"fitted parameters {a[k]} vs canonical {b[k]}"
        else:
            if a[k].shape != b[k].shape or not np.allclose(a[k], b[k], rtol=1e-12, atol=1e-12, equal_nan=True):
                return f"{k} differs"
    for k in a:
        if k.endswith("_index_ok") and not a[k]:
            return f"{k[:-9]} output does not carry X's own index"
    return None


_CANON_CACHE = {}


def check_det_case(acc, case):
    name, x, rep = case["det"], case["x"], tuple(case["rep"])
    X = np.array(x, dtype=float)
    if X.ndim == 1:
        X = X.reshape(-1, 1)
    n = len(X)
    k = n - 2
    key = {"det": name, "container": rep[0]}
    ck = (name, tuple(map(tuple, X.tolist())))
    if ck not in _CANON_CACHE:
        if len(_CANON_CACHE) > 2000:
            _CANON_CACHE.clear()
        _CANON_CACHE[ck] = {pl: observe(name, X, CANON, pl, k) for pl in ("same", "update")}
        # update on ndarray: canonical = default-indexed frames for both parts
        det = dets.make_detector(name, **extra_kw(name))
        try:
            det.fit(pd.DataFrame(X[:k]))
            det.update(pd.DataFrame(X[k:]))
            y = det.predict(pd.DataFrame(X))
            _CANON_CACHE[ck]["update-nd"] = {"events": dets.sparse_events(y, dets.kind_of(name)), "fitted": fitted_params(det)}
            sc = getattr(det, "scores", None)
            if sc is not None:
                _CANON_CACHE[ck]["update-nd"]["scores_attr"] = np.asarray(sc, dtype=float)
        except Exception as e:
            _CANON_CACHE[ck]["update-nd"] = {"exc": f"{type(e).__name__}: {e}"}
    canon = _CANON_CACHE[ck]
    for pl in ("same", "canon-fit", "update"):
        acc.ev()
        ref = canon["same"] if pl != "update" else (canon["update-nd"] if rep[0].startswith("nd") else canon["update"])
        if pl == "canon-fit":
            ref = {k2: v for k2, v in ref.items() if k2 in ("events", "fitted", "scores_attr", "exc")}
        if pl == "update":
            ref = {k2: v for k2, v in ref.items() if k2 in ("events", "fitted", "scores_attr", "exc")}
        obs = observe(name, X, rep, pl, k)
        why = same_obs(obs, ref)
        if why:
            acc.violation("container-dependence", dict(case, pipeline=pl),
                          f"{name} [{pl}] with X as {rep}: {why}" + (f" ({obs['exc']})" if "exc" in obs else ""),
                          dict(key, pipeline=pl, exc=obs.get("exc", "").split(":")[0]))
        if "exc" not in ref and ref.get("events"):
            acc.nt()
    acc.outcome(f"{name}:{rep[0]}")


def scorer_menu():
    from skchange.anomaly_scores import L2Saving, LocalAnomalyScore, Saving
    from skchange.change_scores import CUSUM, ChangeScore
    from skchange.costs import GaussianCovCost, GaussianVarCost, L2Cost

    return {
        "L2Cost": (lambda: L2Cost(), 2, 1), "L2Cost(0.5)": (lambda: L2Cost(param=0.5), 2, 1),
        "GaussianVarCost(0.5,1.5)": (lambda: GaussianVarCost(param=(0.5, 1.5)), 2, 2),
        "Saving(L2Cost(1.25))": (lambda: Saving(L2Cost(param=1.25)), 2, 1),
        "GaussianVarCost": (lambda: GaussianVarCost(), 2, 2),
        "GaussianCovCost(0.5,1.5)": (lambda: GaussianCovCost(param=(0.5, 1.5)), 2, None),
        "CUSUM": (lambda: CUSUM(), 3, 1), "ChangeScore(L2Cost)": (lambda: ChangeScore(L2Cost()), 3, 1),
        "L2Saving": (lambda: L2Saving(), 2, 1), "Saving(L2Cost(0))": (lambda: Saving(L2Cost(param=0.0)), 2, 1),
        "LocalAnomalyScore(L2Cost)": (lambda: LocalAnomalyScore(L2Cost()), 4, 1),
    }


def all_cuts(n, k, ms):
    from props import c06

    if k == 2:
        return [(s, e) for s in range(n) for e in range(s + ms, n + 1)]
    if k == 3:
        return c06.cuts3(n, ms)
    return c06.cuts4(n, ms)


def check_scorer_case(acc, case):
    name, x, rep = case["scorer"], case["x"], tuple(case["rep"])
    X = np.array(x, dtype=float)
    if X.ndim == 1:
        X = X.reshape(-1, 1)
    n, p = X.shape
    make, k, ms = scorer_menu()[name]
    ms = p + 1 if ms is None else ms
    cuts = np.array(all_cuts(n, k, ms))
    acc.ev()
    key = {"scorer": name, "container": rep[0]}
    ref = make().fit(represent(X, CANON)).evaluate(cuts)
    try:
        out = make().fit(represent(X, rep)).evaluate(cuts)
    except Exception as e:
        acc.violation("container-dependence", case, f"{name} with X as {rep}: {type(e).__name__}: {e}", dict(key, exc=type(e).__name__))
        return
    if out.shape != ref.shape or not np.allclose(out, ref, rtol=1e-12, atol=1e-12):
        acc.violation("container-dependence", case, f"{name} with X as {rep}: evaluate differs from the canonical representation", key)
    acc.nt()
    acc.outcome(f"{name}:{rep[0]}")


def check_case(acc, case):
    acc.sample(case)
    try:
        with core.case_timer():
            if "det" in case:
                check_det_case(acc, case)
            else:
                check_scorer_case(acc, case)
    except core.CaseTimeout:
        acc.violation("timeout", case, "call did not return", {})
    except Exception as e:
        acc.violation("harness-raised", case, f"{type(e).__name__}: {e}", {"exc": type(e).__name__})


def cases(tier, seed):
    q = tier == "quick"
    # (0, 3): with (0, 4) every CUSUM / L2 score at bandwidth 2 is an integer, which hides integer truncation
    alph = (0, 3)
    for name in dets.DETECTORS:
        if name == "MVCAPA":
            continue
        for n in ((6, 7) if q else (6, 7, 8)):
            reps = REPS_P1 if n == 6 else REPS_P1_SMALL
            for xs in itertools.product(alph, repeat=n):
                for rep in reps:
                    yield {"det": name, "x": list(xs), "rep": list(rep)}
    for name in ("MVCAPA", "PELT", "CAPA", "MovingWindow"):
        for n in ((4,) if q else (4, 5)):
            for flat in itertools.product(alph, repeat=2 * n):
                x = [list(flat[2 * i:2 * i + 2]) for i in range(n)]
                for rep in REPS_P2:
                    yield {"det": name, "x": x, "rep": list(rep)}
    for name in scorer_menu():
        for n in ((5,) if q else (5, 6)):
            for xs in itertools.product((0, 1, 3), repeat=n):
                for rep in REPS_SCORER:
                    yield {"scorer": name, "x": list(xs), "rep": list(rep)}
        for flat in itertools.product(alph, repeat=8):
            x = [list(flat[2 * i:2 * i + 2]) for i in range(4)]
            for rep in REPS_P2:
                yield {"scorer": name, "x": x, "rep": list(rep)}


    # LARGE integer values (4e9: exact in float64, but their squares and running sums of squares exceed the int64 range):
    # the same numbers held in int64 and in float64 must still give the same output
    big = (0, 4_000_000_000)
    wide = [r for r in REPS_SCORER if r[1] in ("int64", "float64")]
    for name in scorer_menu():
        for xs in itertools.product(big, repeat=5):
            for rep in wide:
                yield {"scorer": name, "x": list(xs), "rep": list(rep)}
    # the same for 32-bit element types: 50 000 is exact in int32 / float32, its square is beyond int32
    big32 = (0, 50_000)
    narrow32 = [(c, dt, "range", "default") for c in ("nd2", "df", "nd1") for dt in ("int32", "float32", "int64")]
    for name in scorer_menu():
        for xs in itertools.product(big32, repeat=5):
            for rep in narrow32:
                yield {"scorer": name, "x": list(xs), "rep": list(rep)}
    for name in ("PELT", "CAPA"):
        for xs in itertools.product(big32, repeat=6):
            for rep in narrow32[:4]:
                yield {"det": name, "x": list(xs), "rep": list(rep)}
    for name in ("PELT", "MovingWindow", "SeededBinarySegmentation", "CAPA", "CircularBinarySegmentation"):
        for xs in itertools.product(big, repeat=6):
            for rep in (("nd2", "int64", "range", "default"), ("df", "int64", "range", "default"), ("series", "int64", "datetime", "str"),
                        ("nd1", "int64", "range", "default"), ("df", "float64", "offset", "str")):
                yield {"det": name, "x": list(xs), "rep": list(rep)}


NSH = 96


def shards(tier, seed):
    return [(tier, seed, i, NSH) for i in range(NSH)]


def bounds(tier, seed):
    return {"detectors": list(dets.DETECTORS), "scorers": list(scorer_menu()),
            "representations_p1": len(REPS_P1), "representations_p1_reduced": len(REPS_P1_SMALL), "representations_p2": len(REPS_P2),
            "data": "all (0,3) series n=6 (full grid), n=7 (reduced grid; thorough also n=8); 2-column (0,3) n=4 (thorough also 5); scorers on all (0,1,3) series n=5 (6); all (0, 4e9) series n=5 (scorers) / n=6 (five detectors) in the int64 and float64 representations; all (0, 50000) series n=5 / 6 as int32 / float32 / int64",
            "pipelines": ["fit(R).predict/transform/transform_scores(R)", "fit(canonical).predict(R)", "fit(R[:n-2]).update(R[n-2:]).predict(R)"]}


def run_shard(shard):
    tier, seed, i, k = shard
    acc = core.Acc()
    # group by data so the canonical cache is effective: shard on the case's data hash
    for j, case in enumerate(cases(tier, seed)):
        h = zlib.crc32(repr((case.get("det", case.get("scorer")), case["x"])).encode()) % k
        if h == i:
            check_case(acc, case)
    return acc


def replay(case):
    acc = core.Acc()
    case = {k: v for k, v in case.items() if k != "pipeline"}
    check_case(acc, case)
    return acc.violations
