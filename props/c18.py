"""C18 -- data generators are reproducible and place segments exactly where requested."""

from __future__ import annotations

import itertools

import numpy as np
import pandas as pd

from smc import core, util

ID = "C18"
LEVEL = "exploration"
RULE = (
    "one case = (generator, n, p, seed, position list, mean / variance menu entry). generate_changing_data: every "
    "changepoint subset of 1..n-1 for n <= 8 (quick) / 10 x p <= 3 x seeds (0,1,2) x 4 parameter shapes; "
    "generate_anomalous_data: every list of <= 2 disjoint anomalies; generate_alternating_data: n_segments <= 4, "
    "segment_length <= 3, p <= 3, affected proportions with integral p*proportion; add_linspace_outliers: every "
    "(n <= 8/10, p <= 3, n_outliers <= n); inconsistent arguments from a fixed menu per generator. Oracle: differential "
    "against the generator's own zero-mean / unit-variance output for the same (n, p, seed). Non-trivial = at least "
    "one segment / anomaly / outlier differs from the standard-normal draw, or the case is an invalid-argument case."
)
ASSUMPTIONS = [
    "negative positions and a changepoint at 0 are not in the must-raise set (the documentation does not address them)",
    "overlapping anomalies are not explored (the statement does not define their composition)",
    "affected_proportion only with p*proportion within 1e-9 of an integer; which columns are affected is not prescribed",
    "tolerance 1e-12 relative on the affine transform",
]


def gens():
    import skchange.datasets.generate as g

    return g


def frame_ok(acc, case, key, df, n, p):
    if not isinstance(df, pd.DataFrame) or df.shape != (n, p):
        acc.violation("shape", case, f"output shape {getattr(df, 'shape', None)} != ({n},{p})", key)
        return False
    if list(df.index) != list(range(n)):
        acc.violation("index", case, f"index {list(df.index)[:6]} is not 0..{n-1}", key)
        return False
    return True


def std_normal(n, p, seed):
    return gens().generate_changing_data(n, [], [np.zeros(p)], [np.ones(p)], random_state=seed)


def params(kind, nseg, p):
    """kind: scalar | persegment | percolumn | mixed  -> (means, variances, mean matrix (nseg x p), var matrix)."""
    M = (0.0, 2.0, -1.5)
    V = (1.0, 4.0, 0.25)
    if kind == "scalar":
        if p == 1:
            return 2.0, 4.0, np.full((nseg, p), 2.0), np.full((nseg, p), 4.0)
        m = np.array([2.0 + 0.5 * j for j in range(p)])
        return [m], 4.0, np.tile(m, (nseg, 1)), np.full((nseg, p), 4.0)
    if kind == "persegment":
        mm = np.array([[M[(i + 1) % 3] + 0.5 * j for j in range(p)] for i in range(nseg)])
        vv = np.array([[V[(i + 1) % 3]] * p for i in range(nseg)])
        means = [mm[i].copy() for i in range(nseg)] if p > 1 else [float(mm[i, 0]) for i in range(nseg)]
        varis = [float(vv[i, 0]) for i in range(nseg)]
        return means, varis, mm, vv
    if kind == "percolumn":
        mm = np.array([[M[(i + j) % 3] for j in range(p)] for i in range(nseg)])
        vv = np.array([[V[(i + 2 * j) % 3] for j in range(p)] for i in range(nseg)])
        return [mm[i].copy() for i in range(nseg)], [vv[i].copy() for i in range(nseg)], mm, vv
    # mixed: one mean for all segments (broadcast), per-segment variances
    m = np.array([-1.5 + j for j in range(p)])
    vv = np.array([[V[i % 3]] * p for i in range(nseg)])
    return [m], [float(vv[i, 0]) for i in range(nseg)], np.tile(m, (nseg, 1)), vv


def check_changing(acc, n, p, seed, cps, kind):
    g = gens()
    acc.ev()
    case = {"gen": "changing", "n": n, "p": p, "seed": seed, "cpts": list(cps), "kind": kind}
    key = {"gen": "changing"}
    nseg = len(cps) + 1
    means, varis, mm, vv = params(kind, nseg, p)
    try:
        Z = std_normal(n, p, seed)
        if not frame_ok(acc, dict(case, what="standard normal"), key, Z, n, p):
            return
        out = g.generate_changing_data(n, list(cps), means, varis, random_state=seed)
        out2 = g.generate_changing_data(n, list(cps), means, varis, random_state=seed)
        if not frame_ok(acc, case, key, out, n, p):
            return
        if not out.equals(out2):
            acc.violation("not-reproducible", case, "two calls with identical arguments and seed differ", key)
        b = [0] + list(cps) + [n]
        want = Z.to_numpy().copy()
        for i in range(nseg):
            want[b[i]:b[i + 1]] = mm[i] + np.sqrt(vv[i]) * want[b[i]:b[i + 1]]
        if not np.allclose(out.to_numpy(), want, rtol=1e-12, atol=1e-12):
            bad = np.argwhere(~np.isclose(out.to_numpy(), want, rtol=1e-12, atol=1e-12))[0]
            acc.violation("segment-placement", case,
                          f"row {bad[0]} column {bad[1]}: got {out.to_numpy()[tuple(bad)]!r}, expected mean + sqrt(var) * z = {want[tuple(bad)]!r}", key)
        if list(out.columns) != [f"var{i}" for i in range(p)]:
            acc.count("unexpected_column_names")
        acc.nt()
        acc.outcome(f"changing:segs={nseg}")
    except Exception as e:
        acc.violation("raised", case, f"{type(e).__name__}: {e}", dict(key, exc=type(e).__name__))


def check_anomalous(acc, n, p, seed, anoms, kind):
    g = gens()
    acc.ev()
    case = {"gen": "anomalous", "n": n, "p": p, "seed": seed, "anomalies": [list(a) for a in anoms], "kind": kind}
    key = {"gen": "anomalous"}
    k = len(anoms)
    means, varis, mm, vv = params(kind, k, p)
    try:
        Z = std_normal(n, p, seed)
        arg = tuple(anoms[0]) if (k == 1 and kind == "scalar") else [tuple(a) for a in anoms]
        out = g.generate_anomalous_data(n, arg, means, varis, random_state=seed)
        out2 = g.generate_anomalous_data(n, arg, means, varis, random_state=seed)
        if not frame_ok(acc, case, key, out, n, p):
            return
        if not out.equals(out2):
            acc.violation("not-reproducible", case, "two calls with identical arguments and seed differ", key)
        want = Z.to_numpy().copy()
        for i, (s, e) in enumerate(anoms):
            want[s:e] = mm[i] + np.sqrt(vv[i]) * want[s:e]
        if not np.allclose(out.to_numpy(), want, rtol=1e-12, atol=1e-12):
            bad = np.argwhere(~np.isclose(out.to_numpy(), want, rtol=1e-12, atol=1e-12))[0]
            acc.violation("anomaly-placement", case,
                          f"row {bad[0]} column {bad[1]}: got {out.to_numpy()[tuple(bad)]!r}, expected {want[tuple(bad)]!r}", key)
        acc.nt()
        acc.outcome(f"anomalous:k={k}")
    except Exception as e:
        acc.violation("raised", case, f"{type(e).__name__}: {e}", dict(key, exc=type(e).__name__))


def check_alternating(acc, nseg, seglen, p, mean, var, prop, seed):
    g = gens()
    acc.ev()
    case = {"gen": "alternating", "n_segments": nseg, "segment_length": seglen, "p": p, "mean": mean, "variance": var, "prop": prop, "seed": seed}
    key = {"gen": "alternating"}
    n = nseg * seglen
    naff = int(round(p * prop))
    try:
        Z = std_normal(n, p, seed).to_numpy()
        out = g.generate_alternating_data(nseg, seglen, p=p, mean=mean, variance=var, affected_proportion=prop, random_state=seed)
        out2 = g.generate_alternating_data(nseg, seglen, p=p, mean=mean, variance=var, affected_proportion=prop, random_state=seed)
        if not frame_ok(acc, case, key, out, n, p):
            return
        if not out.equals(out2):
            acc.violation("not-reproducible", case, "two calls with identical arguments and seed differ", key)
        o = out.to_numpy()
        for i in range(nseg):
            rows = slice(i * seglen, (i + 1) * seglen)
            if i % 2 == 0:
                if not np.allclose(o[rows], Z[rows], rtol=1e-12, atol=1e-12):
                    acc.violation("alternating-even-segment", case, f"segment {i} (rows {rows.start}..{rows.stop-1}) differs from the standard-normal draw", key)
                    return
            else:
                aff = 0
                for j in range(p):
                    t = mean + np.sqrt(var) * Z[rows, j]
                    is_t = np.allclose(o[rows, j], t, rtol=1e-12, atol=1e-12)
                    is_z = np.allclose(o[rows, j], Z[rows, j], rtol=1e-12, atol=1e-12)
                    if not (is_t or is_z):
                        acc.violation("alternating-odd-segment", case, f"segment {i} column {j} is neither the standard-normal draw nor mean + sqrt(var) * z", key)
                        return
                    aff += int(is_t and not is_z) if (mean != 0 or var != 1) else 0
                if (mean != 0 or var != 1) and aff != naff:
                    acc.violation("alternating-affected-count", case, f"segment {i}: {aff} columns affected, expected round({p}*{prop}) = {naff}", key)
                    return
        acc.nt()
        acc.outcome(f"alternating:segs={nseg}")
    except Exception as e:
        acc.violation("raised", case, f"{type(e).__name__}: {e}", dict(key, exc=type(e).__name__))


def check_outliers(acc, n, p, k, size, index="range"):
    from smc import dets

    g = gens()
    acc.ev()
    case = {"gen": "outliers", "n": n, "p": p, "n_outliers": k, "size": size, "index": index}
    key = {"gen": "outliers"}
    try:
        base = pd.DataFrame(np.arange(n * p, dtype=float).reshape(n, p) / 4.0, columns=[f"var{i}" for i in range(p)],
                            index=dets.make_index(index, n))
        df = base.copy()
        out = g.add_linspace_outliers(df, k, size)
        if index == "range":
            if not frame_ok(acc, case, key, out, n, p):
                return
        elif not isinstance(out, pd.DataFrame) or out.shape != (n, p) or not out.index.equals(base.index):
            acc.violation("shape", case, f"output shape {getattr(out, 'shape', None)} / index differ from the input frame's", key)
            return
        diff = out.to_numpy() - base.to_numpy()
        rows = [i for i in range(n) if np.any(diff[i] != 0)]
        if any(not np.allclose(diff[i], size, rtol=0, atol=1e-12) for i in rows):
            acc.violation("outlier-size", case, f"changed rows {rows} do not all change by {size} in every column: {diff[rows].tolist()}", key)
            return
        if len(rows) != k:
            acc.violation("outlier-count", case, f"{len(rows)} rows changed ({rows}), requested {k}", key)
            return
        if k >= 2:
            gaps = np.diff(rows)
            if rows[0] != 0 or rows[-1] != n - 1 or gaps.max() - gaps.min() > 1:
                acc.violation("outlier-spacing", case, f"outlier rows {rows} are not evenly spaced from the first to the last row", key)
                return
        acc.nt()
        acc.outcome(f"outliers:k={min(k, 4)}")
    except Exception as e:
        acc.violation("raised", case, f"{type(e).__name__}: {e}", dict(key, exc=type(e).__name__))


def check_invalid(acc, which):
    g = gens()
    acc.ev()
    case = {"gen": "invalid", "which": which}
    key = {"gen": "invalid", "which": which.split(":")[0]}
    z2, o2 = np.zeros(2), np.ones(2)
    menu = {
        "changing:too-few-means": lambda: g.generate_changing_data(6, [2, 4], [0.0, 1.0], 1.0, random_state=0),
        "changing:too-many-means": lambda: g.generate_changing_data(6, [3], [0.0, 1.0, 2.0], 1.0, random_state=0),
        "changing:too-few-variances": lambda: g.generate_changing_data(6, [2, 4], 0.0, [1.0, 2.0], random_state=0),
        "changing:cpt-equals-n": lambda: g.generate_changing_data(6, [6], [0.0, 1.0], 1.0, random_state=0),
        "changing:cpt-beyond-n": lambda: g.generate_changing_data(6, [3, 9], [0.0, 1.0, 2.0], 1.0, random_state=0),
        "changing:cpt-int-beyond-n": lambda: g.generate_changing_data(5, 7, [0.0, 1.0], 1.0, random_state=0),
        "changing:too-few-means-2d": lambda: g.generate_changing_data(6, [2, 4], [z2, o2], 1.0, random_state=0),
        "anomalous:too-few-means": lambda: g.generate_anomalous_data(8, [(1, 2), (4, 6), (6, 7)], [1.0, 2.0], 1.0, random_state=0),
        "anomalous:too-many-variances": lambda: g.generate_anomalous_data(8, [(1, 2)], 1.0, [1.0, 2.0], random_state=0),
        "anomalous:end-beyond-n": lambda: g.generate_anomalous_data(8, [(6, 9)], 1.0, 1.0, random_state=0),
        "anomalous:start-beyond-n": lambda: g.generate_anomalous_data(8, [(9, 11)], 1.0, 1.0, random_state=0),
        "anomalous:empty": lambda: g.generate_anomalous_data(8, [(3, 3)], 1.0, 1.0, random_state=0),
        "anomalous:reversed": lambda: g.generate_anomalous_data(8, [(5, 3)], 1.0, 1.0, random_state=0),
        "anomalous:tuple-empty": lambda: g.generate_anomalous_data(8, (4, 4), 1.0, 1.0, random_state=0),
        "anomalous:triple": lambda: g.generate_anomalous_data(8, [(1, 2, 3)], 1.0, 1.0, random_state=0),
        "anomalous:second-invalid": lambda: g.generate_anomalous_data(8, [(1, 2), (7, 10)], 1.0, 1.0, random_state=0),
    }
    try:
        menu[which]()
        acc.violation("invalid-accepted", case, f"inconsistent arguments accepted: {which}", key)
    except ValueError:
        acc.nt()
    except Exception as e:
        acc.violation("invalid-wrong-exception", case, f"{which}: {type(e).__name__}: {e} (ValueError expected)", dict(key, exc=type(e).__name__))
    acc.outcome("invalid")
    return list(menu)


INVALID = ["changing:too-few-means", "changing:too-many-means", "changing:too-few-variances", "changing:cpt-equals-n", "changing:cpt-beyond-n",
           "changing:cpt-int-beyond-n", "changing:too-few-means-2d", "anomalous:too-few-means", "anomalous:too-many-variances",
           "anomalous:end-beyond-n", "anomalous:start-beyond-n", "anomalous:empty", "anomalous:reversed", "anomalous:tuple-empty",
           "anomalous:triple", "anomalous:second-invalid"]
KINDS = ("scalar", "persegment", "percolumn", "mixed")


def cases(tier, seed):
    q = tier == "quick"
    seeds = (0, 1, 2, 10 + seed)
    topc = 8 if q else 10
    for n in range(1, topc + 1):
        for p in (1, 2, 3):
            for sd in seeds:
                for k in range(0, n):
                    for cps in itertools.combinations(range(1, n), k):
                        for kind in KINDS:
                            if kind == "percolumn" and p == 1:
                                continue
                            yield ("changing", n, p, sd, cps, kind)
    for n in (9, 10) if q else (11, 12):
        for p in (1, 2):
            for cps in ((), (1,), (n - 1,), (1, n - 1), (3, 4, 5)):
                yield ("changing", n, p, 0, cps, "persegment")
    topa = 7 if q else 9
    for n in range(1, topa + 1):
        ivs = [(s, e) for s in range(n) for e in range(s + 1, n + 1)]
        lists = [(a,) for a in ivs] + [(a, b) for a in ivs for b in ivs if a[1] <= b[0]] + [(b, a) for a in ivs for b in ivs if a[1] <= b[0] and n <= 4]
        for p in (1, 2, 3):
            for sd in seeds[:2] if p == 3 else seeds:
                for an in lists:
                    for kind in KINDS:
                        if (kind == "percolumn" and p == 1) or (kind in ("mixed", "percolumn") and sd != 0):
                            continue
                        yield ("anomalous", n, p, sd, an, kind)
    for nseg in (1, 2, 3, 4):
        for seglen in (1, 2, 3):
            for p in (1, 2, 3):
                props = {1: (0.0, 1.0), 2: (0.0, 0.5, 1.0), 3: (0.0, 1 / 3, 2 / 3, 1.0)}[p]
                for prop in props:
                    for mean, var in ((2.0, 1.0), (0.0, 4.0), (-1.5, 0.25), (0.0, 1.0)):
                        for sd in seeds[:3]:
                            yield ("alternating", nseg, seglen, p, mean, var, prop, sd)
    for n in range(1, (8 if q else 10) + 1):
        for p in (1, 2, 3):
            for k in range(0, n + 1):
                for size in (5.0, -2.5):
                    yield ("outliers", n, p, k, size)
                if n <= 6 and p <= 2:
                    # "rows" are positions: the frame may carry any index (a slice of generated data, dates, ...)
                    for ik in ("offset", "step2", "datetime", "int64"):
                        yield ("outliers", n, p, k, 5.0, ik)
    # every (n, n_outliers) pair of realistic size: rounding of the evenly spaced grid depends on the pair
    for n in range((9 if q else 11), (72 if q else 200) + 1):
        for k in range(0, n + 1):
            yield ("outliers", n, 1 + (n + k) % 3, k, 5.0)
    for w in INVALID:
        yield ("invalid", w)


NSH = 32


def shards(tier, seed):
    return [(tier, seed, i, NSH) for i in range(NSH)]


def bounds(tier, seed):
    return {"changing": "n<=8 (quick)/10, p<=3, seeds (0,1,2,10+VERIF_SEED), all changepoint subsets, 4 parameter shapes", "anomalous": "n<=7/9, all lists of <=2 disjoint anomalies (both orders for n<=4)",
            "alternating": "n_segments<=4, segment_length<=3, p<=3, 4 (mean,variance) pairs, proportions with integral p*prop",
            "outliers": "n<=8/10, p<=3, n_outliers 0..n, sizes (5, -2.5); every (n, n_outliers) pair up to n=72 (quick) / 200 with one p each; for n<=6, p<=2 also frames with an offset / stepped / datetime / irregular integer index", "invalid": INVALID}


def dispatch(acc, c):
    kind = c[0]
    if kind == "changing":
        check_changing(acc, *c[1:])
    elif kind == "anomalous":
        check_anomalous(acc, *c[1:])
    elif kind == "alternating":
        check_alternating(acc, *c[1:])
    elif kind == "outliers":
        check_outliers(acc, *c[1:])
    else:
        check_invalid(acc, c[1])


def run_shard(shard):
    tier, seed, i, k = shard
    acc = core.Acc()
    for j, c in enumerate(cases(tier, seed)):
        if j % k == i:
            dispatch(acc, c)
            acc.sample({"case": core.jsonable(c)}, limit=2)
    return acc


def replay(case):
    acc = core.Acc()
    g = case["gen"]
    if g == "changing":
        check_changing(acc, case["n"], case["p"], case["seed"], tuple(case["cpts"]), case["kind"])
    elif g == "anomalous":
        check_anomalous(acc, case["n"], case["p"], case["seed"], tuple(tuple(a) for a in case["anomalies"]), case["kind"])
    elif g == "alternating":
        check_alternating(acc, case["n_segments"], case["segment_length"], case["p"], case["mean"], case["variance"], case["prop"], case["seed"])
    elif g == "outliers":
        check_outliers(acc, case["n"], case["p"], case["n_outliers"], case["size"], case.get("index", "range"))
    else:
        check_invalid(acc, case["which"])
    return acc.violations
