"""C13 -- evaluate either rejects a cuts array or scores exactly the cuts it describes.

Every integer tuple of the box [-2, n+2]^k for every scorer (k = 2, 3, 4), several
integer dtypes, 2-row batches mixing a valid and an invalid row, and malformed arrays.
Oracle: validity predicate written from the statement; invalid => ValueError, valid =>
returns the value a fresh scorer gives on exactly the rows the cut describes.
"""

from __future__ import annotations

import itertools

import numpy as np

from smc import core, util

ID = "C13"
LEVEL = "exploration"
RULE = (
    "one case = (scorer, fitted data (n, p), cuts array); the box [-2, n+2]^k is enumerated completely for every "
    "scorer and n <= 6 (quick) / 11 (thorough), as int64 and int32, its non-negative part as uint8, every box "
    "element also in a 2-row batch with a valid row (both orders, k<=3 or n<=4), plus float / bool / wrong-width "
    "/ 1-D / 3-D / empty arrays; plus, on n = 300, every k-tuple over a 16-point boundary lattice around 0, 2^7, 2^8 and n in six "
    "integer dtypes (narrow dtypes must not wrap around). Non-trivial = the tuple is invalid only because of its bounds or spacing "
    "(i.e. not rejected by dtype/shape checks), or it is valid."
)
ASSUMPTIONS = [
    "validity predicate from the statement: integer dtype, <=2-D (1-D = one row), expected width, strictly increasing, every part >= min_size (local scores: inner part and pooled surroundings >= min_size), all positions within 0..n",
    "valid cuts on a non-positive-definite slice may raise the documented RuntimeError (multivariate Gaussian cost)",
    "value oracle = fresh scorer of the same class fitted on exactly the rows the cut describes (values themselves are C01/C06's subject)",
]


def scorers(p):
    from skchange.anomaly_scores import L2Saving, LocalAnomalyScore, Saving
    from skchange.change_scores import CUSUM, ChangeScore
    from skchange.costs import GaussianCovCost, GaussianVarCost, L2Cost

    # name -> (factory, k, min_size, kind)
    return {
        "L2Cost": (lambda: L2Cost(), 2, 1, "cost"),
        "L2Cost(1)": (lambda: L2Cost(param=1.0), 2, 1, "cost"),
        "GaussianVarCost": (lambda: GaussianVarCost(), 2, 2, "cost"),
        "GaussianVarCost(0,1)": (lambda: GaussianVarCost(param=(0.0, 1.0)), 2, 2, "cost"),
        "GaussianCovCost": (lambda: GaussianCovCost(), 2, p + 1, "cost"),
        "GaussianCovCost(0,1)": (lambda: GaussianCovCost(param=(0.0, 1.0)), 2, p + 1, "cost"),
        "L2Saving": (lambda: L2Saving(), 2, 1, "cost"),
        "Saving(L2Cost(0))": (lambda: Saving(L2Cost(param=0.0)), 2, 1, "cost"),
        "Saving(GaussianVarCost(0,1))": (lambda: Saving(GaussianVarCost(param=(0.0, 1.0))), 2, 2, "cost"),
        "CUSUM": (lambda: CUSUM(), 3, 1, "change"),
        "ChangeScore(L2Cost)": (lambda: ChangeScore(L2Cost()), 3, 1, "change"),
        "ChangeScore(GaussianVarCost)": (lambda: ChangeScore(GaussianVarCost()), 3, 2, "change"),
        "LocalAnomalyScore(L2Cost)": (lambda: LocalAnomalyScore(L2Cost()), 4, 1, "local"),
        "LocalAnomalyScore(GaussianVarCost)": (lambda: LocalAnomalyScore(GaussianVarCost()), 4, 2, "local"),
        "LocalAnomalyScore(GaussianCovCost)": (lambda: LocalAnomalyScore(GaussianCovCost()), 4, p + 1, "local"),
    }


def data(n, p, which):
    t = np.arange(n, dtype=float).reshape(-1, 1)
    if which == 0:
        X = (t * t * (np.arange(p) + 1) + 3 * t * np.arange(p)) % 7 + 0.5 * (t % 2)
    else:
        X = np.ones((n, p)) * 2.0
        X[n // 2:] += 1.0
    return X.astype(float)


def valid(t, k, ms, kind, n):
    if any(t[i + 1] - t[i] < 1 for i in range(k - 1)):
        return False
    if t[0] < 0 or t[-1] > n:
        return False
    if kind == "local":
        return (t[2] - t[1]) >= ms and (t[1] - t[0]) + (t[3] - t[2]) >= ms
    return all(t[i + 1] - t[i] >= ms for i in range(k - 1))


def slice_value(make, kind, X, t):
    """Fresh scorer on exactly the rows the cut describes."""
    s, e = t[0], t[-1]
    sub = X[s:e]
    sc = make().fit(sub)
    return sc.evaluate(np.array([[x - s for x in t]]))[0]


def call(sc, arr):
    try:
        return ("value", sc.evaluate(arr))
    except ValueError:
        return ("ValueError", None)
    except RuntimeError:
        return ("RuntimeError", None)
    except Exception as e:
        return (type(e).__name__, str(e)[:200])


LATTICE_N = 300
LATTICE = (-1, 0, 1, 3, 126, 127, 128, 129, 254, 255, 256, 257, 297, 299, 300, 301)
# a series long enough for 32-bit arithmetic on the cuts to overflow (46341**2 > 2**31): positions around 0, sqrt(2**31),
# 2**16 and n, as int64 and int32 cuts
BIG_N = 100_000
BIG_LATTICE = (-1, 0, 2, 46340, 46342, 50000, 65535, 65537, 99998, 100000, 100001)


def check_scorer(acc, name, n, p, which, lattice=False):
    """lattice=False: the complete box [-2, n+2]^k.  lattice=True (n = 300): every k-tuple over the boundary lattice
    LATTICE (around 0, 2^7, 2^8 and n), in int64 / int32 / int16 / uint16 and, where the values fit, uint8 / int8 --
    narrow dtypes must not wrap around inside the validity arithmetic."""
    make, k, ms, kind = scorers(p)[name]
    X = data(n, p, which)
    key = {"scorer": name}
    base = {"scorer": name, "n": n, "p": p, "data": which}
    if lattice:
        base["lattice"] = lattice
    try:
        sc = make().fit(X)
    except Exception as e:
        acc.violation("fit-raised", base, f"{type(e).__name__}: {e}", key)
        return
    box = list(itertools.product((BIG_LATTICE if lattice == "big" else LATTICE) if lattice else range(-2, n + 3), repeat=k))
    good = [t for t in box if valid(t, k, ms, kind, n)]
    good_clean = None
    w = None
    for t in box:
        ok = valid(t, k, ms, kind, n)
        dtype_or_shape_only = False
        for dt in (("int64", "int32", "int16", "uint16", "uint8", "int8") if lattice else ("int64", "int32", "uint8")):
            info = np.iinfo(dt)
            if min(t) < info.min or max(t) > info.max:
                continue
            if not lattice and dt != "int64" and (n > 5 and k == 4):
                continue
            acc.ev()
            arr = np.array([t], dtype=dt)
            st, out = call(sc, arr)
            case = dict(base, cuts=[list(t)], dtype=dt)
            if ok:
                if st == "RuntimeError" and "Cov" in name:
                    acc.count("valid_nonpd_runtimeerror")
                    continue
                if st != "value":
                    acc.violation("valid-cut-rejected", case, f"{name}: valid cut {t} (n={n}, min_size={ms}) -> {st} {out}", dict(key, got=st))
                    continue
                try:
                    want = slice_value(make, kind, X, t)
                except RuntimeError:
                    acc.count("valid_nonpd_runtimeerror")
                    continue
                if out.shape != (1, len(want)) or not all(util.close(a, b, 1e-9) for a, b in zip(out[0], want)):
                    acc.violation("valid-cut-wrong-value", case, f"{name}: cut {t} -> {out!r}, rows X[{t[0]}:{t[-1]}] alone give {want!r}", key)
                    continue
                if good_clean is None:
                    good_clean = t
                acc.nt()
            else:
                if st != "ValueError":
                    why = "out of 0..n" if (t[0] < 0 or t[-1] > n) else "not increasing / too close"
                    acc.violation("invalid-cut-accepted", case,
                                  f"{name}: invalid cut {t} ({why}; n={n}, min_size={ms}) -> {st}" + (f" {out.tolist()}" if st == "value" else f" {out}"),
                                  dict(key, why=why, got=("value" if st == "value" else st)))
                    continue
                acc.nt()
        acc.outcome("valid" if ok else "invalid")
    # 2-row batches mixing a valid and an invalid row
    if good_clean is not None and (k <= 3 or n <= 4) and not (lattice and k == 3) and lattice != "big":
        for t in box:
            if valid(t, k, ms, kind, n):
                continue
            for arr in (np.array([good_clean, t]), np.array([t, good_clean])):
                acc.ev()
                st, out = call(sc, arr)
                if st != "ValueError":
                    acc.violation("invalid-row-in-batch-accepted", dict(base, cuts=arr.tolist()),
                                  f"{name}: batch {arr.tolist()} with an invalid row -> {st}", dict(key, got=("value" if st == "value" else st)))
    # malformed arrays
    if good_clean is not None:
        g = list(good_clean)
        wcols = sc.evaluate(np.array([g])).shape[1]
        mal = {
            "float": (np.array([g], dtype=float), "ValueError"),
            "bool": (np.array([g]) > 0, "ValueError"),
            "wide": (np.array([g + [g[-1] + 1]]), "ValueError"),
            "narrow": (np.array([g[:-1]]), "ValueError"),
            "3d": (np.array([[g]]), "ValueError"),
            # a 1-D vector of k entries / a plain list: the statement speaks of arrays with columns; the pinned tree reads them
            # as one row (resp. converts the list).  Either reading is accepted: ValueError, or the value(s) in the right shape
            "1d": (np.array(g), "either"),
            "list": (g, "either"),
            "list-of-lists": ([g, g], "either"),
            "empty": (np.zeros((0, k), dtype=np.int64), "value"),
            "1d-wrong": (np.array(g[:-1]), "ValueError"),
            "object-float-strings": (np.array([[str(x) for x in g]]), "ValueError"),
        }
        # non-integer entries in containers other than an ndarray (a conversion with dtype=int would truncate them silently)
        gf = [float(v) for v in g[:-1]] + [g[-1] - 0.5]
        mal["list-float"] = ([gf], "ValueError")
        mal["tuple-float"] = ((tuple(gf),), "ValueError")
        mal["list-integral-floats"] = ([[float(v) for v in g]], "ValueError")
        mal["list-bool"] = ([[bool(v) for v in g]], "ValueError")
        mal["list-digit-strings"] = ([[str(v) for v in g]], "ValueError")
        mal["dataframe-float"] = (__import__("pandas").DataFrame([gf]), "ValueError")
        # wrong-width arrays whose entries COULD be re-chunked into valid rows of the expected width (2 valid rows laid
        # out as one flat vector or with any other width): the width itself is wrong, so ValueError
        flat = g + g
        mal["1d-two-rows-flat"] = (np.array(flat), "ValueError")
        for wdt in range(1, 2 * k + 1):
            if (2 * k) % wdt == 0 and wdt != k:
                mal[f"rechunkable-{2 * k // wdt}x{wdt}"] = (np.array(flat).reshape(-1, wdt), "ValueError")
        for mname, (arr, want) in mal.items():
            acc.ev()
            st, out = call(sc, arr)
            case = dict(base, malformed=mname)
            if want == "ValueError" and st != "ValueError":
                acc.violation("malformed-accepted", case, f"{name}: malformed cuts '{mname}' -> {st}", dict(key, malformed=mname))
            elif want == "either" and st == "ValueError":
                acc.count("lenient_input_form_rejected")
            elif want in ("value", "either"):
                if st != "value":
                    acc.violation("wellformed-rejected", case, f"{name}: well-formed cuts '{mname}' -> {st} {out}", dict(key, malformed=mname))
                else:
                    rows = {"1d": 1, "list": 1, "list-of-lists": 2, "empty": 0}[mname]
                    if out.shape != (rows, wcols):
                        acc.violation("wellformed-shape", case, f"{name}: '{mname}' -> shape {out.shape}, expected {(rows, wcols)}", dict(key, malformed=mname))
            acc.nt()
    acc.sample(dict(base, box=(f"LATTICE^{k}" if lattice else f"[-2,{n+2}]^{k}"), n_valid=len(good)), limit=3)


def configs(tier):
    top = 6 if tier == "quick" else 11
    out = []
    for name in scorers(1):
        k = scorers(1)[name][1]
        if tier != "quick" or k <= 3 or name == "LocalAnomalyScore(GaussianVarCost)":
            out.append((name, LATTICE_N, 1, 0, True))
            if tier != "quick" and "Cov" not in name:
                out.append((name, LATTICE_N, 2, 0, True))
    for name in ("L2Cost", "CUSUM", "ChangeScore(L2Cost)", "L2Saving", "GaussianVarCost") if tier == "quick" else [nm for nm in scorers(1) if scorers(1)[nm][1] <= 3]:
        if name in scorers(1):
            out.append((name, BIG_N, 1, 0, "big"))
    for p in (1, 2):
        for name in scorers(p):
            for n in range(1, top + 1):
                for which in (0, 1):
                    if which == 1 and "Cov" in name:
                        continue
                    if which == 1 and n == top and tier == "quick":
                        continue
                    out.append((name, n, p, which, False))
    return out


def shards(tier, seed):
    cf = configs(tier)
    cf.sort(key=lambda c: -((30 if c[4] == "big" else len(LATTICE)) if c[4] else c[1] + 5) ** scorers(c[2])[c[0]][1])
    return cf


def bounds(tier, seed):
    return {"scorers": list(scorers(1)), "n": "1..6 (quick) / 1..11 (thorough)", "p": [1, 2],
            "lattice": {"n": LATTICE_N, "positions": list(LATTICE), "dtypes": ["int64", "int32", "int16", "uint16", "uint8", "int8"],
                        "scorers": "all with k<=3 and one local score (quick) / all, p = 1 and 2 (thorough)"},
            "big_lattice": {"n": BIG_N, "positions": list(BIG_LATTICE), "dtypes": ["int64", "int32"], "scorers": "five with k<=3 (quick) / all with k<=3 (thorough)"},
            "box": "[-2, n+2]^k, k = 2 (costs, savings), 3 (change scores), 4 (local anomaly scores)",
            "dtypes": ["int64", "int32 (not for k=4, n>5)", "uint8 (non-negative part)"]}


def run_shard(shard):
    acc = core.Acc()
    name, n, p, which, lattice = shard
    with core.case_timer(900):
        check_scorer(acc, name, n, p, which, lattice)
    return acc


def replay(case):
    acc = core.Acc()
    check_scorer(acc, case["scorer"], case["n"], case["p"], case["data"], case.get("lattice") or False)
    want = case.get("cuts")
    if want is not None:
        acc.violations = [v for v in acc.violations if v["case"].get("cuts") == want and v["case"].get("dtype") == case.get("dtype")]
    return acc.violations
