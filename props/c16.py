"""C16 -- MVCAPA's affected columns are the optimal sparse subset for each anomaly."""

from __future__ import annotations

import itertools

import numpy as np
import pandas as pd

from smc import core, dets, util
from smc.envs import TableSaving

ID = "C16"
LEVEL = "exploration"
RULE = (
    "family 'table': one case = (p, anomaly kind collective/point, assignment of a saving level from {0,1,3,7,15} to "
    "every column, penalty scale or callable, detection penalty family); all 5^p assignments are enumerated for "
    "p = 2..4 and, on reduced level alphabets, 5 and 6 (quick) / 2..6 (thorough, p=6 with levels {0,1,3,7}). family 'data': every 2- and 3-column matrix over "
    "the alphabet with L2Saving. For each reported anomaly the affected columns are compared with the sorted-prefix "
    "optimum under the sparse penalty (point penalty for point anomalies) and transform must mark exactly them. "
    "Non-trivial = an anomaly is reported and the optimal subset is a proper subset or the savings are not all equal."
)
ASSUMPTIONS = [
    "ties between columns with equal savings may be listed in any order; cases where the optimal k is not unique by a 1e-9 margin are counted and skipped, as the statement excludes ties by margin",
    "the sparse penalty is taken from the public sparse_mvcapa_penalty (its formula is C15's subject)",
]

LEVELS = (0, 1, 3, 7, 15)


class ConstPenalty:
    def __init__(self, alpha, betas):
        self.alpha, self.betas = float(alpha), tuple(float(b) for b in betas)

    def __call__(self, n, p, n_params_per_variable=1, scale=1.0):
        return self.alpha, np.array(self.betas, dtype=float)

    def __repr__(self):
        return f"ConstPenalty({self.alpha}, {self.betas})"

    def __eq__(self, o):
        return isinstance(o, ConstPenalty) and (self.alpha, self.betas) == (o.alpha, o.betas)

    def __hash__(self):
        return hash((self.alpha, self.betas))


def judge_anomaly(acc, case, key, sav, cols, alpha, betas):
    """sav: per-column savings on the anomaly; cols: reported icolumns (in order)."""
    p = len(sav)
    cl = [int(c) for c in cols]
    if len(cl) == 0 or len(set(cl)) != len(cl) or any(not (0 <= c < p) for c in cl):
        acc.violation("icolumns-invalid", case, f"icolumns {cl}", key)
        return False
    listed = [sav[c] for c in cl]
    if any(listed[i + 1] > listed[i] + 1e-12 for i in range(len(listed) - 1)):
        acc.violation("icolumns-order", case, f"icolumns {cl} have savings {listed}: not in order of decreasing saving", key)
        return False
    srt = sorted(sav, reverse=True)
    cum = np.cumsum(np.array(srt) - np.asarray(betas, dtype=float)) - alpha
    best = int(np.argmax(cum))
    rest = np.delete(cum, best)
    if len(rest) and cum[best] - rest.max() <= 1e-9 * max(1.0, abs(cum[best])):
        acc.count("skipped_non_unique_k")
        return True
    kstar = best + 1
    if len(cl) != kstar:
        acc.violation("icolumns-count", case,
                      f"{len(cl)} affected columns {cl} reported; savings {sav}, penalised cumulative sums {cum.tolist()} are maximal at k={kstar}", key,
                      expected=kstar, observed=len(cl))
        return False
    excluded = [sav[c] for c in range(p) if c not in cl]
    if excluded and max(excluded) > min(listed) + 1e-12:
        acc.violation("icolumns-not-top-k", case, f"excluded column has saving {max(excluded)} > included {min(listed)} (icolumns {cl}, savings {sav})", key)
        return False
    return True


def check_transform(acc, case, key, det, X, y, n, p):
    dense = det.transform(X)
    ev = dets.sparse_events(y, "subset")
    model = dets.dense_model(ev, "subset", n, p)
    if dense.shape != model.shape or not np.array_equal(dense.to_numpy(), model):
        acc.violation("transform-columns", case, f"transform marks {dense.to_numpy().T.tolist()}, predict reports {ev}", key)
        return False
    # the same data in a frame whose integer column labels are NOT the positions (labels p-1..0, and 1..p): affected
    # columns are positions, so predict and the marked cells must not change
    for cols in ("revint", "offint"):
        X2 = pd.DataFrame(np.asarray(X), columns=dets.column_labels(cols, p))
        y2 = det.predict(X2)
        ev2 = dets.sparse_events(y2, "subset")
        d2 = det.transform(X2)
        if ev2 != ev or d2.shape != model.shape or not np.array_equal(d2.to_numpy(), model):
            acc.violation("transform-columns-integer-labels", dict(case, column_labels=dets.column_labels(cols, p)),
                          f"with integer column labels {dets.column_labels(cols, p)}: predict reports {ev2} (default labels: {ev}), "
                          f"transform marks {d2.to_numpy().T.tolist()}", key)
            return False
    return True


def check_table(acc, case):
    from skchange.anomaly_detectors import MVCAPA
    import skchange.anomaly_detectors.mvcapa as mv

    acc.ev()
    acc.sample(case)
    p, kind, lv, pen = case["p"], case["kind"], case["levels"], case["pen"]
    key = {"fam": "table", "kind": kind}
    n, msl = 7, 2
    ct = np.zeros((n + 1, n + 1, p))
    pt = np.zeros((n + 1, n + 1, p))
    if kind == "collective":
        s, e = case.get("at", (2, 5))
        ct[s, e, :] = lv
    else:
        s = case.get("at", (3, 4))[0]
        e = s + 1
        pt[s, e, :] = lv
    nparam = case.get("nparam", 1)
    cs, ps = TableSaving(ct, msl, nparam), TableSaving(pt, 1, nparam)
    X = pd.DataFrame(np.zeros((n, p)))
    try:
        with core.case_timer():
            if pen[0] == "scale":
                # detection with zero penalties (callable), inference with the sparse penalty at this scale
                scale = pen[1]
                det = MVCAPA(cs, ps, collective_penalty=ConstPenalty(0, [0] * p) if kind == "collective" else "sparse",
                             collective_penalty_scale=scale, point_penalty="sparse", point_penalty_scale=scale, min_segment_length=msl,
                             max_segment_length=4)
                alpha, betas = mv.sparse_mvcapa_penalty(n, p, nparam, scale)
            elif pen[0] == "family":
                scale = pen[2]
                det = MVCAPA(cs, ps, collective_penalty=pen[1], collective_penalty_scale=scale, point_penalty=pen[1] if pen[1] != "intermediate" else "sparse",
                             point_penalty_scale=scale, min_segment_length=msl, max_segment_length=4)
                if kind == "collective":
                    alpha, betas = mv.sparse_mvcapa_penalty(n, p, nparam, scale)
                else:
                    alpha, betas = mv.capa_penalty_factory(pen[1] if pen[1] != "intermediate" else "sparse")(n, p, nparam, scale=scale)
            else:  # callable point penalty
                _, a, b = pen
                det = MVCAPA(cs, ps, collective_penalty=ConstPenalty(0, [0] * p), collective_penalty_scale=0.5,
                             point_penalty=ConstPenalty(a, b), min_segment_length=msl, max_segment_length=4)
                if kind == "collective":
                    alpha, betas = mv.sparse_mvcapa_penalty(n, p, nparam, 0.5)
                else:
                    alpha, betas = a, b
            det.fit(X)
            y = det.predict(X)
            ev = dets.sparse_events(y, "subset")
            hit = [x for x in ev if (x[0], x[1]) == (s, e)]
            if not ev:
                acc.outcome("no-anomaly")
                return
            if len(ev) != 1 or not hit:
                acc.count("other_anomaly_pattern")
            nontriv = False
            for (a0, b0, cols) in ev:
                sav = (ct if b0 - a0 > 1 else pt)[a0, b0, :].tolist()
                ok = judge_anomaly(acc, dict(case, anomaly=[a0, b0]), key, sav, cols, float(alpha), np.asarray(betas, dtype=float))
                nontriv = nontriv or (ok and (len(cols) < p or len(set(sav)) > 1))
                acc.outcome(f"k={len(cols)}/{p}")
            if nontriv:
                acc.nt()
            check_transform(acc, case, key, det, X, y, n, p)
    except core.CaseTimeout:
        acc.violation("timeout", case, "did not return", key)
    except Exception as ex:
        acc.violation("raised", case, f"{type(ex).__name__}: {ex}", dict(key, exc=type(ex).__name__))


def check_data(acc, case):
    from skchange.anomaly_detectors import MVCAPA
    from skchange.anomaly_scores import L2Saving
    import skchange.anomaly_detectors.mvcapa as mv

    acc.ev()
    acc.sample(case, limit=2)
    X = np.array(case["x"], dtype=float)
    n, p = X.shape
    key = {"fam": "data"}
    scale = case["scale"]
    try:
        with core.case_timer():
            det = MVCAPA(collective_penalty=case["pen"], collective_penalty_scale=scale, point_penalty_scale=scale, min_segment_length=2,
                         max_segment_length=n)
            Xf = pd.DataFrame(X)
            det.fit(Xf)
            y = det.predict(Xf)
            ev = dets.sparse_events(y, "subset")
            ref = L2Saving().fit(X)
            ca, cb = mv.sparse_mvcapa_penalty(n, p, 1, scale)
            nontriv = False
            for (a0, b0, cols) in ev:
                sav = ref.evaluate(np.array([[a0, b0]]))[0].tolist()
                ok = judge_anomaly(acc, dict(case, anomaly=[a0, b0]), key, sav, cols, float(ca), np.asarray(cb, dtype=float))
                nontriv = nontriv or (ok and (len(cols) < p or len(set(sav)) > 1))
                acc.outcome(f"k={len(cols)}/{p}")
            if nontriv:
                acc.nt()
            if not ev:
                acc.outcome("no-anomaly")
            check_transform(acc, case, key, det, Xf, y, n, p)
    except core.CaseTimeout:
        acc.violation("timeout", case, "did not return", key)
    except Exception as ex:
        acc.violation("raised", case, f"{type(ex).__name__}: {ex}", dict(key, exc=type(ex).__name__))


def cases(tier, seed):
    q = tier == "quick"
    for p in (2, 3, 4, 5, 6):
        levels = LEVELS if p < 6 else LEVELS[:4]
        if q and p >= 5:  # quick: wide data on a reduced level alphabet (the penalty families only differ from p = 5 on)
            levels = (LEVELS[0], LEVELS[1], LEVELS[3]) if p == 5 else (LEVELS[0], LEVELS[2])
        pens = [("scale", s) for s in (0.1, 0.5, 1.0, 2.0)] + [("family", f, 0.3) for f in ("combined", "dense", "sparse")]
        pens += [("callable", 0.5, [1.0] * p), ("callable", 0.0, [0.5 * (j + 1) for j in range(p)]), ("callable", 1.0, [2.0] + [0.0] * (p - 1))]
        if p >= 5:
            pens = pens[1:3] + pens[4:5] + pens[-2:]
        for lv in itertools.product(levels, repeat=p):
            if not any(lv):
                continue
            for pen in pens:
                for kind in ("collective", "point"):
                    if pen[0] == "callable" and kind == "collective" and pen[1] != 0.5:
                        continue
                    yield {"fam": "table", "p": p, "kind": kind, "levels": list(lv), "pen": list(pen)}
            if p <= 3:
                for at in ((0, 2), (5, 7), (3, 7)):
                    yield {"fam": "table", "p": p, "kind": "collective", "levels": list(lv), "pen": ["scale", 0.5], "at": list(at), "nparam": 2}
                for at in ((0, 1), (6, 7)):
                    yield {"fam": "table", "p": p, "kind": "point", "levels": list(lv), "pen": ["scale", 0.5], "at": list(at)}
    # WEAK columns: a saving that is positive but below the sparse per-component penalty (0.5 < 2 * 0.3 * log p), next to
    # clearly affected columns, under the detection families whose own per-component terms are smaller than the sparse ones
    for p in (3, 4, 5, 6):
        for lv in itertools.product((0, 0.5, 7), repeat=p):
            if 7 not in lv:
                continue
            for fam in ("combined", "dense"):
                yield {"fam": "table", "p": p, "kind": "collective", "levels": list(lv), "pen": ["family", fam, 0.3]}
    a, b = util.seed_affine(seed)
    for p, tops in ((2, 4 if q else 5), (3, 3 if q else 4)):
        for n in range(2, tops + 1):
            for alph in ((0, 3), (a, a + 3 * b)) if p == 2 else ((0, 3),):
                for flat in itertools.product(alph, repeat=n * p):
                    x = [list(flat[i * p:(i + 1) * p]) for i in range(n)]
                    for pen, scale in (("combined", 0.1), ("sparse", 0.3)):
                        yield {"fam": "data", "x": x, "pen": pen, "scale": scale}
    if not q:
        for flat in itertools.product((0, 1, 3), repeat=8):
            x = [list(flat[2 * i:2 * i + 2]) for i in range(4)]
            yield {"fam": "data", "x": x, "pen": "combined", "scale": 0.1}


NSH = 64


def shards(tier, seed):
    return [(tier, seed, i, NSH) for i in range(NSH)]


def bounds(tier, seed):
    return {"p": "2..4 full, 5 with levels (0,1,7), 6 with levels (0,3) (quick) / 2..6 (thorough)", "levels": list(LEVELS), "weak_levels(p=3..6, combined/dense detection)": [0, 0.5, 7], "n": 7, "anomaly positions": "collective [2,5) (also [0,2), [5,7), [3,7) for p<=3), point [3,4) (also [0,1), [6,7))",
            "penalties": "sparse inference scales (0.1, 0.5, 1, 2); detection families combined/dense/sparse at 0.3; three callable point penalties",
            "data": "all 2-column matrices over (0,3) and its seed-affine image n<=4/5; 3-column over (0,3) n<=3/4; thorough: 2-column (0,1,3) n=4"}


def run_shard(shard):
    tier, seed, i, k = shard
    acc = core.Acc()
    for j, case in enumerate(cases(tier, seed)):
        if j % k == i:
            (check_table if case["fam"] == "table" else check_data)(acc, case)
    return acc


def replay(case):
    acc = core.Acc()
    case = {k: v for k, v in case.items() if k != "anomaly"}
    (check_table if case["fam"] == "table" else check_data)(acc, case)
    return acc.violations
