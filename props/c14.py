"""C14 -- documented-valid configurations always run; invalid ones fail with ValueError.

Full grid of boundary and interior hyper-parameter values per detector x scorers with
minimum size 1, 2 and p+1 x data lengths around the documented minimum x p x {no NaN,
one NaN} x data menu.  Three-valued oracle written from the docstrings:
must-raise (ValueError at construction, fit or predict), must-run (completes and is
well-formed; the only other accepted outcomes are the documented non-positive-definite
RuntimeError with the covariance cost and a ValueError when the scorer's minimum size
exceeds the requested segment length / bandwidth), unspecified (counted, not judged).
"""

from __future__ import annotations

import itertools

import numpy as np
import pandas as pd

from smc import core, dets

ID = "C14"
LEVEL = "exploration"
RULE = (
    "one case = (detector, hyper-parameter cell of the full Cartesian grid, scorer, data length relative to the "
    "documented minimum, p, NaN flag, data set). Data menu: constant / step / alternating / spike series for every "
    "cell; additionally EVERY (0,4) series of the admissible lengths <= 6 (quick) / 8 (thorough) for all documented-valid "
    "cells with p = 1. Non-trivial = cell classified must-raise or must-run (not 'unspecified')."
)
ASSUMPTIONS = [
    "for invalid HYPER-PARAMETERS the stage (construction / fit / predict) at which ValueError is raised is not prescribed; for invalid DATA (NaN, too short) the call that receives the data must raise: fit(bad) alone, and predict(bad) after fit(good)",
    "unspecified cells (docstring and code disagree or the statement is silent): PELT penalty_scale=None, level outside (0,1), MovingWindow.min_detection_interval in (bandwidth/2 - 1, bandwidth/2]; either outcome accepted, counted separately",
    "CAPA/MVCAPA: min_segment_length < 2 and a point saving with minimum size > 1 are documented-invalid; MVCAPA with a multivariate saving or an unknown penalty name is documented-invalid; MVCAPA 'intermediate' penalty needs p >= 2",
    "documented minimum data length: 2*min_segment_length (PELT, seeded and circular binary segmentation), 2*bandwidth (moving window), min_segment_length (CAPA, MVCAPA)",
]


def scorer(kind, role):
    """kind in {'L2','GV','Cov'}; role in {'cost','change','saving','local'} -> (object, min_size(p))"""
    from skchange.costs import GaussianCovCost, GaussianVarCost, L2Cost

    if role == "saving":
        obj = {"L2": lambda: L2Cost(param=0.0), "GV": lambda: GaussianVarCost(param=(0.0, 1.0)),
               "Cov": lambda: GaussianCovCost(param=(0.0, 1.0))}[kind]()
    else:
        obj = {"L2": L2Cost, "GV": GaussianVarCost, "Cov": GaussianCovCost}[kind]()
    ms = {"L2": lambda p: 1, "GV": lambda p: 2, "Cov": lambda p: p + 1}[kind]
    return obj, ms


def cells(name):
    """Yields (kwargs-builder, status, info) ; status in {'valid','invalid','unspecified'};
    info: minlen, scorer kind, need (requested shortest segment), inv (C04 invariant args)."""
    S = ("L2", "GV", "Cov")
    if name == "PELT":
        for sc, msl, k in itertools.product((-1.0, 0.0, 1.0, None), (0, 1, 2, 3), S):
            st = "invalid" if (sc is not None and sc < 0) or msl < 1 else ("unspecified" if sc is None else "valid")
            yield (lambda k=k, sc=sc, msl=msl: dict(cost=scorer(k, "cost")[0], penalty_scale=sc, min_segment_length=msl),
                   st, dict(minlen=2 * msl, k=k, need=msl, inv=dict(msl=msl)))
    elif name in ("SeededBinarySegmentation", "CircularBinarySegmentation"):
        key = "change_score" if name.startswith("Seeded") else "anomaly_score"
        for sc, msl, dM, g, k in itertools.product((-1.0, 0.0, 1.0, None), (0, 1, 2, 3), (-1, 0, 1, 3), (1.0, 1.01, 1.5, 2.0, 2.5), S):
            M = 2 * msl + dM
            bad = (sc is not None and sc < 0) or msl < 1 or M < 2 * msl or not (1.0 < g <= 2.0)
            inv = dict(msl=msl) if name.startswith("Seeded") else dict(msl=msl, cbs=True)
            yield (lambda k=k, sc=sc, msl=msl, M=M, g=g: {key: scorer(k, "cost")[0], "threshold_scale": sc, "level": 0.3,
                                                          "min_segment_length": msl, "max_interval_length": M, "growth_factor": g},
                   "invalid" if bad else "valid", dict(minlen=2 * msl, k=k, need=msl, inv=inv))
        for lv in (0.0, 0.01, 0.5, 1.0):
            yield (lambda lv=lv: {key: scorer("L2", "cost")[0], "threshold_scale": None, "level": lv, "min_segment_length": 2,
                                  "max_interval_length": 5, "growth_factor": 1.5},
                   "valid" if 0 < lv < 1 else "unspecified", dict(minlen=4, k="L2", need=2, inv=dict(msl=2, cbs=not name.startswith("Seeded"))))
    elif name == "MovingWindow":
        for b, sc, mdi, k in itertools.product((0, 1, 2, 3, 4, 6), (-1.0, 0.0, 1.0, None), (0, 1, 2, 3), S):
            if mdi < 1 or b < 1 or (sc is not None and sc < 0) or mdi > max(1, b / 2):
                st = "invalid"
            elif mdi > max(1, b / 2 - 1):
                st = "unspecified"
            else:
                st = "valid"
            yield (lambda b=b, sc=sc, mdi=mdi, k=k: dict(change_score=scorer(k, "cost")[0], bandwidth=b, threshold_scale=sc, level=0.3,
                                                         min_detection_interval=mdi),
                   st, dict(minlen=2 * b, k=k, need=b, inv=dict(band=b)))
        for lv in (0.0, 0.01, 0.5, 1.0):
            yield (lambda lv=lv: dict(bandwidth=2, threshold_scale=1.0, level=lv), "valid" if 0 < lv < 1 else "unspecified",
                   dict(minlen=4, k="L2", need=2, inv=dict(band=2)))
    elif name in ("CAPA", "MVCAPA"):
        pens = (None,) if name == "CAPA" else ("combined", "sparse", "dense", "intermediate", "bogus")
        for cs, ps, msl, dM, k, ig, pen in itertools.product((-1.0, 0.0, 1.0), (-1.0, 1.0), (0, 1, 2, 3), (-1, 0, 1, 3), S, (False, True), pens):
            if pen not in (None, "combined") and (k != "L2" or ig):
                continue
            M = msl + dM
            bad = cs < 0 or ps < 0 or msl < 2 or M < msl or pen == "bogus" or (name == "MVCAPA" and k == "Cov")

            def build(cs=cs, ps=ps, msl=msl, M=M, k=k, ig=ig, pen=pen):
                d = dict(collective_saving=scorer(k, "saving")[0], collective_penalty_scale=cs, point_penalty_scale=ps,
                         min_segment_length=msl, max_segment_length=M, ignore_point_anomalies=ig)
                if pen is not None:
                    d["collective_penalty"] = pen
                return d

            yield (build, "invalid" if bad else "valid", dict(minlen=msl, k=k, need=msl, inv=dict(msl=msl, M=M), minp=2 if pen == "intermediate" else 1))
        # point saving with minimum size 2 is documented-invalid
        yield (lambda: dict(point_saving=scorer("GV", "saving")[0]), "invalid", dict(minlen=2, k="L2", need=2, inv=dict(msl=2, M=1000)))
    elif name == "StatThresholdAnomaliser":
        import skchange.change_detectors as cd

        for lo, hi in ((-1.0, 1.0), (0.0, 0.0), (1.0, -1.0), (0.5, 0.4999), (-3.0, 3.0), (2.0, 2.0)):
            for inner in ("PELT", "MW"):
                def build(lo=lo, hi=hi, inner=inner):
                    det = cd.PELT(penalty_scale=0.05, min_segment_length=1) if inner == "PELT" else cd.MovingWindow(bandwidth=1, threshold_scale=0.1)
                    return dict(change_detector=det, stat_lower=lo, stat_upper=hi)
                yield (build, "invalid" if lo > hi else "valid", dict(minlen=2, k="L2", need=1, inv={}))


def data_menu(n, p, nan):
    out = []
    t = np.arange(n)
    for name, col in (("const", np.full(n, 4.0)), ("step", np.where(t >= n // 2, 4.0, 0.0)), ("alt", (t % 2) * 4.0),
                      ("spike", np.where(t == n // 2, 4.0, 0.0))):
        X = np.column_stack([np.roll(col, j) * (1 + 0.5 * j) + 0.25 * j * t for j in range(p)]).astype(float)
        if nan == 1:
            X[n // 2, p - 1] = np.nan
        elif nan == 2:
            X[0, 0] = np.nan
        elif nan == 3:
            X[n - 1, 0] = np.nan
        out.append((name, X))
    return out


def classify(st, info, n, p, nan):
    """-> 'must-raise' | 'must-run' | 'unspecified'"""
    if st == "invalid" or nan or n < info["minlen"]:
        return "must-raise"
    if p < info.get("minp", 1):
        return "unspecified"
    return "must-run" if st == "valid" else "unspecified"


def run_one(acc, name, ci, build, st, info, n, p, nan, dname, X):
    acc.ev()
    cls = classify(st, info, n, p, nan)
    case = {"det": name, "cell": ci, "n": n, "p": p, "nan": nan, "data": dname, "x": X.tolist(), "class": cls}
    key = {"det": name, "class": cls}
    outcome = None
    try:
        with core.case_timer():
            try:
                kw = build()
                case["params"] = {k: repr(v) for k, v in kw.items()}
                det = dets.make_detector(name, **kw) if name == "StatThresholdAnomaliser" else make(name, kw)
                Xf = pd.DataFrame(X)
                det.fit(Xf)
                y = det.predict(Xf)
                outcome = ("ok", y)
            except ValueError as e:
                outcome = ("ValueError", str(e)[:200])
            except RuntimeError as e:
                outcome = ("RuntimeError", str(e)[:200])
            except core.CaseTimeout:
                raise
            except Exception as e:
                outcome = (type(e).__name__, str(e)[:200])
    except core.CaseTimeout:
        acc.violation("timeout", case, "did not return", key)
        return
    acc.outcome(f"{cls}:{outcome[0]}")
    if cls == "must-raise" and st != "invalid" and outcome[0] == "ValueError":
        # bad DATA (NaN / too short) with a valid configuration: the very call that receives the data must raise --
        # fit(bad) on its own, and predict(bad) after a fit on good data
        stage = data_stage_outcomes(name, build, info, n, p, nan, X)
        for where, got in stage.items():
            if got != "ValueError":
                why = "NaN in data" if nan else "data shorter than the documented minimum"
                acc.violation("invalid-data-not-rejected-by-receiving-call", dict(case, stage=where),
                              f"{name}({case.get('params')}) n={n} p={p}: {why}: {where} -> {got} (ValueError required from the call that receives the data)",
                              dict(key, why=why, stage=where, got=got))
    if cls == "unspecified":
        acc.count("unspecified_cells")
        return
    acc.nt()
    if cls == "must-raise":
        if outcome[0] != "ValueError":
            why = "NaN in data" if nan else ("data shorter than the documented minimum" if n < info["minlen"] else "hyper-parameter outside the documented domain")
            acc.violation("invalid-not-rejected", case,
                          f"{name}({case.get('params')}) n={n} p={p}: {why} -> {outcome[0]}" + (f": {outcome[1]}" if outcome[0] != "ok" else ""),
                          dict(key, why=why, got=outcome[0]))
        return
    # must-run
    if outcome[0] == "ok":
        probs = dets.wellformed(outcome[1], dets.kind_of(name), n, p, **info["inv"])
        if probs:
            acc.violation("valid-malformed-output", case, f"{name}({case.get('params')}): {probs[:2]}", key)
        return
    ms = scorer(info["k"], "cost")[1](p)
    if outcome[0] == "RuntimeError" and info["k"] == "Cov" and "positive definite" in outcome[1]:
        acc.count("accepted_nonpd_runtimeerror")
        return
    if outcome[0] == "ValueError" and ms > info["need"]:
        acc.count("accepted_scorer_min_size_valueerror")
        return
    acc.violation("valid-config-failed", case,
                  f"{name}({case.get('params')}) n={n} p={p} data={dname}: documented-valid configuration -> {outcome[0]}: {outcome[1]}",
                  dict(key, got=outcome[0]))


def data_stage_outcomes(name, build, info, n, p, nan, X):
    """{'fit(bad)': outcome, 'predict(bad) after fit(good)': outcome}"""
    out = {}

    def outcome(f):
        try:
            f()
            return "ok"
        except ValueError:
            return "ValueError"
        except Exception as e:
            return type(e).__name__

    def new():
        kw = build()
        return dets.make_detector(name, **kw) if name == "StatThresholdAnomaliser" else make(name, kw)

    Xf = pd.DataFrame(X)
    out["fit(bad)"] = outcome(lambda: new().fit(Xf))
    good_n = max(info["minlen"], n) + 2
    good = pd.DataFrame(np.column_stack([((np.arange(good_n) * (3 + j)) % 5).astype(float) + (np.arange(good_n) >= good_n // 2) * 4.0 for j in range(p)]))
    try:
        det = new()
        det.fit(good)
    except Exception:
        return out  # the configuration cannot be fitted on this good data (e.g. scorer minimum size): nothing to add
    out["predict(bad) after fit(good)"] = outcome(lambda: det.predict(Xf))
    # the other entry points that receive data
    out["transform(bad) after fit(good)"] = outcome(lambda: det.transform(Xf))
    if outcome(lambda: det.transform_scores(good)) != "NotImplementedError":  # SBS, CBS, the anomaliser do not offer it
        out["transform_scores(bad) after fit(good)"] = outcome(lambda: det.transform_scores(Xf))
    if nan:
        # (short data are not bad data for update: the combined data are long enough)
        Xu = Xf.copy()
        Xu.index = pd.RangeIndex(good_n, good_n + len(Xu))
        out["update(bad) after fit(good)"] = outcome(lambda: det.update(Xu))
    return out


def make(name, kw):
    import skchange.anomaly_detectors as ad
    import skchange.change_detectors as cd

    return getattr(cd, name, None)(**kw) if hasattr(cd, name) else getattr(ad, name)(**kw)


def lengths(minlen):
    return sorted({x for x in (minlen - 1, minlen, minlen + 1, minlen + 4) if x >= 1})


def units(tier):
    out = []
    for name in dets.DETECTORS:
        nc = sum(1 for _ in cells(name))
        step = 24
        for lo in range(0, nc, step):
            out.append((name, lo, min(nc, lo + step)))
    return out


def shards(tier, seed):
    return [(tier,) + u for u in units(tier)]


def bounds(tier, seed):
    return {"cells_per_detector": {name: sum(1 for _ in cells(name)) for name in dets.DETECTORS},
            "values": {"scales": [-1, 0, 1, None], "min_segment_length": [0, 1, 2, 3], "max length offsets": [-1, 0, 1, 3],
                       "growth_factor": [1.0, 1.01, 1.5, 2.0, 2.5], "bandwidth": [0, 1, 2, 3, 4, 6], "min_detection_interval": [0, 1, 2, 3],
                       "level": [0.0, 0.01, 0.5, 1.0], "scorers": ["L2Cost", "GaussianVarCost", "GaussianCovCost"]},
            "lengths": "min-1, min, min+1, min+4", "p": [1, 2, 3], "nan": ["none", "row n//2 of the last column", "first row of the first column", "last row of the first column"],
            "all_series": "every (0,4) series of admissible lengths <= 6 (quick) / 8 (thorough) for valid cells, p=1"}


def run_shard(shard):
    tier, name, lo, hi = shard
    acc = core.Acc()
    top = 6 if tier == "quick" else 8
    for ci, (build, st, info) in enumerate(cells(name)):
        if not (lo <= ci < hi):
            continue
        ps = (1,) if name == "StatThresholdAnomaliser" else (1, 2, 3)
        for n in lengths(info["minlen"]):
            for p in ps:
                for nan in (0, 1, 2, 3):
                    if nan and st == "invalid" and p > 1:
                        continue
                    if nan >= 2 and (st == "invalid" or p == 3):
                        continue
                    for dname, X in data_menu(n, p, nan):
                        if st == "invalid" and dname not in ("step",):
                            continue
                        run_one(acc, name, ci, build, st, info, n, p, nan, dname, X)
        if st == "valid":
            for n in range(max(info["minlen"], 1), top + 1):
                for xs in itertools.product((0.0, 4.0), repeat=n):
                    run_one(acc, name, ci, build, st, info, n, 1, False, "all", np.array(xs).reshape(-1, 1))
        if ci == lo:
            acc.sample({"det": name, "cell": ci, "status": st, "params": {k: repr(v) for k, v in build().items()}})
    return acc


def replay(case):
    acc = core.Acc()
    name = case["det"]
    for ci, (build, st, info) in enumerate(cells(name)):
        if ci == case["cell"]:
            run_one(acc, name, ci, build, st, info, case["n"], case["p"], case["nan"], case["data"], np.array(case["x"], dtype=float))
    return acc.violations
