"""C04 -- detections are well-formed and respect the configured length limits.

Mode A: all seven detectors x hyper-parameter grid x every small-alphabet series from the
minimum admissible length upwards; plus the table families of C02/C03/C07/C08/C09 re-run
with ONLY this invariant as oracle (outputs under ties, adjacent winners and boundary
positions, which real data seldom produces).
"""

from __future__ import annotations

import itertools

import numpy as np
import pandas as pd

from smc import core, dets, util

ID = "C04"
LEVEL = "exploration"
RULE = (
    "family 'data': one case = (detector, hyper-parameter setting from the grid, data matrix over the alphabet); "
    "every series over (0,4) for every admissible length up to the bound, over (0,1,3) for shorter lengths, "
    "2-column and (MVCAPA) up to 4-column matrices. family 'tables': every case of the listed table families of "
    "C02/C03/C07/C08/C09, detector output checked with the same invariant. Non-trivial = the output contains at "
    "least one event."
)
ASSUMPTIONS = [
    "hyper-parameter grid: boundary and interior values of the documented domains (see coverage.bounds)",
    "configurations whose scorer cannot score segments as short as requested are not part of this property (C14 covers them)",
]


def grid(name):
    """List of (kwargs, invariant kwargs, min length)."""
    from skchange.costs import GaussianVarCost, L2Cost

    out = []
    if name == "PELT":
        for msl in (1, 2, 3):
            for sc in (0.0, 0.05, 1.0):
                out.append((dict(cost=L2Cost(), penalty_scale=sc, min_segment_length=msl), dict(msl=msl), 2 * msl))
            if msl >= 2:
                out.append((dict(cost=GaussianVarCost(), penalty_scale=0.05, min_segment_length=msl), dict(msl=msl), 2 * msl))
    elif name == "SeededBinarySegmentation":
        for msl in (1, 2, 3):
            for M in (2 * msl, 2 * msl + 1, 100):
                for g in (1.1, 1.5, 2.0):
                    for sc in (0.0, 0.3, 2.0):
                        if (sc == 2.0 and g != 1.5) or (g != 1.5 and M != 100):
                            continue
                        out.append((dict(threshold_scale=sc, min_segment_length=msl, max_interval_length=M, growth_factor=g),
                                    dict(msl=msl), 2 * msl))
        out.append((dict(change_score=L2Cost(), threshold_scale=None, level=0.3, min_segment_length=1, max_interval_length=10),
                    dict(msl=1), 2))
    elif name == "MovingWindow":
        for b in (1, 2, 3):
            for sc in (0.0, 0.1, 2.0):
                out.append((dict(bandwidth=b, threshold_scale=sc), dict(band=b), 2 * b))
        out.append((dict(bandwidth=2, threshold_scale=None, level=0.3), dict(band=2), 4))
        out.append((dict(change_score=L2Cost(), bandwidth=1, threshold_scale=0.1), dict(band=1), 2))
    elif name in ("CAPA", "MVCAPA"):
        for msl in (2, 3):
            for M in (msl, msl + 1, 100):
                for sc in (0.0, 0.1, 2.0):
                    for ig in (False, True):
                        if ig and sc == 2.0:
                            continue
                        out.append((dict(collective_penalty_scale=sc, point_penalty_scale=sc / 2 if name == "CAPA" else sc,
                                         min_segment_length=msl, max_segment_length=M, ignore_point_anomalies=ig),
                                    dict(msl=msl, M=M), msl))
        if name == "MVCAPA":
            for pen in ("dense", "sparse", "intermediate"):
                out.append((dict(collective_penalty=pen, collective_penalty_scale=0.1, point_penalty_scale=0.1,
                                 min_segment_length=2, max_segment_length=4), dict(msl=2, M=4, minp=2 if pen == "intermediate" else 1), 2))
    elif name == "CircularBinarySegmentation":
        for msl in (1, 2, 3):
            for M in (2 * msl, 2 * msl + 1, 100):
                for g in (1.1, 1.5, 2.0):
                    for sc in (0.0, 0.05, 2.0):
                        if (sc == 2.0 and g != 1.5) or (g != 1.5 and M != 100):
                            continue
                        out.append((dict(threshold_scale=sc, min_segment_length=msl, max_interval_length=M, growth_factor=g),
                                    dict(msl=msl, cbs=True), 2 * msl))
    elif name == "StatThresholdAnomaliser":
        import skchange.change_detectors as cd

        for lo, hi in ((1.0, 3.0), (0.0, 0.0), (-1.0, 5.0), (2.0, 2.0)):
            out.append((dict(stat_lower=lo, stat_upper=hi), {}, 2))
        out.append((dict(change_detector=cd.MovingWindow(bandwidth=2, threshold_scale=0.1), stat=np.median, stat_lower=0.5, stat_upper=3.5), {}, 4))
        out.append((dict(change_detector=cd.SeededBinarySegmentation(threshold_scale=0.3, min_segment_length=1, max_interval_length=8),
                         stat=np.max, stat_lower=0.0, stat_upper=3.0), {}, 2))
    # larger parameters, run on medium-length series only
    L = dict(long=True)
    if name == "PELT":
        out.append((dict(cost=L2Cost(), penalty_scale=0.5, min_segment_length=5), dict(msl=5, **L), 10))
        out.append((dict(cost=GaussianVarCost(), penalty_scale=0.2, min_segment_length=4), dict(msl=4, **L), 8))
    elif name == "SeededBinarySegmentation":
        out.append((dict(threshold_scale=0.5, min_segment_length=4, max_interval_length=12, growth_factor=1.5), dict(msl=4, **L), 8))
        out.append((dict(threshold_scale=0.5, min_segment_length=5, max_interval_length=10, growth_factor=2.0), dict(msl=5, **L), 10))
    elif name == "MovingWindow":
        out.append((dict(bandwidth=5, threshold_scale=0.5), dict(band=5, **L), 10))
        out.append((dict(bandwidth=6, threshold_scale=0.5, min_detection_interval=2), dict(band=6, **L), 12))
    elif name in ("CAPA", "MVCAPA"):
        out.append((dict(collective_penalty_scale=0.5, point_penalty_scale=0.5, min_segment_length=4, max_segment_length=6), dict(msl=4, M=6, **L), 4))
        out.append((dict(collective_penalty_scale=0.3, point_penalty_scale=0.3, min_segment_length=5, max_segment_length=100), dict(msl=5, M=100, **L), 5))
    elif name == "CircularBinarySegmentation":
        out.append((dict(threshold_scale=0.3, min_segment_length=4, max_interval_length=12, growth_factor=1.5), dict(msl=4, cbs=True, **L), 8))
    elif name == "StatThresholdAnomaliser":
        import skchange.change_detectors as cd2

        out.append((dict(change_detector=cd2.PELT(penalty_scale=0.5, min_segment_length=4), stat_lower=1.0, stat_upper=2.5), dict(**L), 8))
    return out


def check_output(acc, case, key, name, y, n, p, inv):
    inv = {k: v for k, v in inv.items() if k not in ("minp", "long")}
    probs = dets.wellformed(y, dets.kind_of(name), n, p, **inv)
    if probs:
        acc.violation("malformed-output", case, f"{name}: {probs[:3]}", dict(key, what=probs[0].split(" ")[0]))
        return False
    return True


def check_data_case(acc, name, gi, X):
    kw, inv, minlen = grid(name)[gi]
    n, p = X.shape
    acc.ev()
    case = {"fam": "data", "det": name, "grid_index": gi, "params": {k: repr(v) for k, v in kw.items()}, "x": X.tolist()}
    key = {"fam": "data", "det": name}
    try:
        with core.case_timer():
            det = dets.make_detector(name, **kw)
            Xf = pd.DataFrame(X)
            det.fit(Xf)
            y = det.predict(Xf)
            check_output(acc, case, key, name, y, n, p, inv)
            if len(y):
                acc.nt()
            acc.outcome(f"{name}:K={min(len(y), 4)}")
            acc.sample(case, limit=2)
    except core.CaseTimeout:
        acc.violation("timeout", case, "predict did not return", key)
    except Exception as e:
        acc.violation("raised", case, f"{name}({case['params']}) on n={n}, p={p}: {type(e).__name__}: {e}", dict(key, exc=type(e).__name__))


def data_matrices(tier, seed, name, minlen, minp, long=False):
    q = tier == "quick"
    if long:
        for n in (12, 16) if q else (12, 16, 20, 24):
            if n < minlen:
                continue
            for cps, xs in util.structured_series(n, 2, (0.0, 3.0)):
                yield np.array(xs, dtype=float).reshape(-1, 1)
            for cps, xs in util.structured_series(n, 4, (0.0, 3.0)):
                if len(cps) in (3, 4) and (cps[0] + 2 * cps[1] + cps[-1]) % 5 == 0:
                    x = np.array(xs, dtype=float).reshape(-1, 1)
                    x[(cps[1] + cps[2]) // 2, 0] += 6.0
                    yield x
            for cps, xs in util.structured_series(n, 1, (0.0, 3.0)):
                yield np.array(util.three_columns(xs), dtype=float)
        return
    a, b = util.seed_affine(seed)
    top2 = 8 if q else 10
    top3 = 5 if q else 7
    if minp <= 1:
        for n in range(minlen, top2 + 1):
            for xs in itertools.product((0, 4), repeat=n):
                yield np.array(xs, dtype=float).reshape(-1, 1)
        for alph in ((0, 1, 3), tuple(a + b * x for x in (0, 1, 3))):
            for n in range(minlen, top3 + 1):
                for xs in itertools.product(alph, repeat=n):
                    yield np.array(xs, dtype=float).reshape(-1, 1)
    # two columns: second = shifted copy / zeros / independent
    for n in range(minlen, (4 if q else 6) + 1):
        for flat in itertools.product((0, 4), repeat=2 * n):
            yield np.array(flat, dtype=float).reshape(n, 2)
    if name == "MVCAPA":
        for pp in (3, 4):
            for n in range(max(minlen, 2), ((3 if pp == 3 else 2) if q else 4) + 1):
                for flat in itertools.product((0, 4), repeat=pp * n):
                    yield np.array(flat, dtype=float).reshape(n, pp)


def data_units(tier, seed):
    out = []
    for name in dets.DETECTORS:
        for gi in range(len(grid(name))):
            out.append((name, gi))
    return out


TABLE_FAMILIES = ("c02", "c03", "c07", "c08", "c09")


def table_cases(modname, tier):
    import importlib

    mod = importlib.import_module(f"props.{modname}")
    if modname == "c02":
        for cfg in mod.table_configs("quick"):
            n, msl, pen, p, variant, alphabet, maxdev = cfg
            if n > 6 or p != 1 or variant != "min" or maxdev is not None:
                continue
            m = len(mod.intervals(n, msl))
            if len(alphabet) ** m > (5000 if tier == 'quick' else 40000):
                continue
            for sl in mod.slack_vectors(m, alphabet, None):
                yield {"mode": "table", "n": n, "msl": msl, "pen": pen, "p": 1, "variant": "min", "slacks": list(sl)}
    elif modname == "c03":
        for cfg in mod.table_configs("quick"):
            det, n, p, msl, M, fam, pvfam, pens = cfg
            if n > 4 or fam[0] != "full":
                continue
            tabs = mod.family_tables(n, msl, M, fam)
            pvs = mod.point_vectors(n, pvfam)
            for t in tabs:
                for pv in pvs:
                    if p != 1:
                        continue
                    yield {"mode": "table", "det": det, "n": n, "p": 1, "msl": msl, "M": M, "ctab": [list(t)], "pvec": [list(pv)],
                           "pen": list(pens[0]), "pair": False}
    elif modname == "c07":
        for j, c in enumerate(mod.greedy_full_cases("quick")):
            if tier != "quick" or c["n"] <= 6:
                yield c
    elif modname == "c08":
        for c in mod.detect_cases("quick"):
            if len(c["levels"]) <= 5:
                yield c
    elif modname == "c09":
        for c in mod.greedy_cases("quick"):
            if tier != "quick" or c["n"] <= 6:
                yield c


def run_table_shard(acc, modname, tier, i, k):
    import importlib

    mod = importlib.import_module(f"props.{modname}")
    state = {"case": None}

    def hook(det_name, y, info):
        acc.ev()
        inv = {x: info[x] for x in ("msl", "M", "band") if x in info}
        if det_name == "CircularBinarySegmentation":
            inv["cbs"] = True
        case = {"fam": "tables", "module": modname, "case": state["case"]}
        if check_output(acc, case, {"fam": "tables", "det": det_name}, det_name, y, info["n"], info.get("p", 1), inv) and len(y):
            acc.nt()
        acc.outcome(f"{det_name}:K={min(len(y), 4)}")

    core.OUTPUT_HOOK = hook
    try:
        sink = core.Acc()
        for j, case in enumerate(table_cases(modname, tier)):
            if j % k == i:
                state["case"] = case
                mod.check_case(sink, case)
                sink.violations.clear()
                sink.samples.clear()
    finally:
        core.OUTPUT_HOOK = None


NTAB = 12


def shards(tier, seed):
    sh = [("data", tier, seed, name, gi) for (name, gi) in data_units(tier, seed)]
    sh += [("tables", tier, m, i, NTAB) for m in TABLE_FAMILIES for i in range(NTAB)]
    return sh


def bounds(tier, seed):
    return {
        "grid_sizes": {name: len(grid(name)) for name in dets.DETECTORS},
        "grid": {name: [{k: repr(v) for k, v in g[0].items()} for g in grid(name)][:6] for name in dets.DETECTORS},
        "data": "all (0,4) series from the minimum length to 8 (quick)/10; (0,1,3) and seed-affine image to 5/7; all 2-column (0,4) matrices to n=4/6; MVCAPA also 3- and 4-column to n=3/4",
        "long": "extra grid cells with min_segment_length 4-5, bandwidth 5-6 (mdi 2), max lengths 6-12 on piecewise-constant textured series n in (12,16) quick / up to 24 (all placements of <= 2 changes, a fifth of the 3-4 change placements with a spike, 3-column variants)",
        "tables": "C02 full tables n<=6 p=1; C03 full tables n<=4; C07 greedy family; C08 detect family (<=5 positions); C09 greedy family -- invariant only",
    }


def run_shard(shard):
    acc = core.Acc()
    if shard[0] == "data":
        _, tier, seed, name, gi = shard
        kw, inv, minlen = grid(name)[gi]
        for X in data_matrices(tier, seed, name, minlen, inv.get("minp", 1), inv.get("long", False)):
            check_data_case(acc, name, gi, X)
    else:
        _, tier, modname, i, k = shard
        run_table_shard(acc, modname, tier, i, k)
    return acc


def replay(case):
    acc = core.Acc()
    if case.get("fam") == "data":
        check_data_case(acc, case["det"], case["grid_index"], np.array(case["x"], dtype=float))
    else:
        import importlib

        mod = importlib.import_module(f"props.{case['module']}")

        def hook(det_name, y, info):
            inv = {x: info[x] for x in ("msl", "M", "band") if x in info}
            if det_name == "CircularBinarySegmentation":
                inv["cbs"] = True
            check_output(acc, case, {"fam": "tables", "det": det_name}, det_name, y, info["n"], info.get("p", 1), inv)

        core.OUTPUT_HOOK = hook
        try:
            mod.check_case(core.Acc(), case["case"])
        finally:
            core.OUTPUT_HOOK = None
    return acc.violations
