"""C08 -- moving window: symmetric two-sided scores and peak-of-run detections.

(i) window placement for every (n, bandwidth) with an encoding score whose value reveals
the cut it was asked about; (ii) detection logic on every per-position level table
(levels expressed relative to the read-back threshold, so exact ties with the threshold
and between positions occur); (iii) every small-alphabet series with built-in scores:
scores equal the reference score of (t-b, t, t+b), and time reversal maps t to n-t.
"""

from __future__ import annotations

import itertools

import numpy as np
import pandas as pd

from smc import core, refmodels, util
from smc.envs import EncodingChangeScore, TableChangeScore

ID = "C08"
LEVEL20 = float(2 ** 20)
LEVEL = "exploration"
RULE = (
    "families: 'place' = every (n, bandwidth) with 2b <= n <= N, encoding score; 'detect' = every assignment "
    "of a level from {0, thr, nextafter(thr), 2thr} to every scored position (full for <=7 positions, <=3 "
    "deviations beyond) x every admissible min_detection_interval x p in {1,2}; 'tuned' = integer level "
    "tables with threshold_scale=None; 'data' = every series over the alphabets with CUSUM / L2 / Gaussian "
    "change scores, plus its time reversal. Non-trivial = at least one position exceeds the threshold "
    "(detect/tuned/data) or the window is not degenerate (place)."
)
ASSUMPTIONS = [
    "numba not installed: kernels run as plain Python/NumPy",
    "admissible min_detection_interval = the range accepted by the constructor, [1, max(1, bandwidth/2 - 1)] (inside the documented 1..bandwidth/2)",
    "reversal of discrete outputs is compared only when every exceedance decision and every run maximum has margin > 1e-9",
    "Mode A reference scores come from a fresh instance of the same scorer class (scorer correctness is C01/C06)",
]


def mw(n, p, b, scorer, thr_scale, mdi=1, X=None, level=None, fit_rows=None):
    from skchange.change_detectors import MovingWindow

    kw = {} if level is None else {"level": level}
    det = MovingWindow(scorer, bandwidth=b, threshold_scale=thr_scale, min_detection_interval=mdi, **kw)
    if X is None:
        X = pd.DataFrame(np.zeros((n, p)))
    det.fit(X if not fit_rows else X.iloc[:fit_rows])
    sc = np.asarray(det.transform_scores(X), dtype=float)
    y = det.predict(X)
    core.emit("MovingWindow", y, n=len(X), p=X.shape[1], band=b)
    cpts = [int(c) for c in y["ilocs"]]
    sc2 = np.asarray(det.scores, dtype=float)
    return cpts, sc, sc2, float(det.threshold_)


def check_detection(acc, case, key, scores, cpts, thr, mdi, tol_ties=0.0):
    flags = [bool(s > thr) for s in scores]
    runs = [r for r in refmodels.runs_of_true(flags) if r[1] - r[0] >= mdi]
    if sorted(cpts) != list(cpts):
        acc.violation("mw-cpts-not-sorted", case, f"changepoints {cpts}", key)
        return False
    if len(cpts) != len(runs):
        acc.violation("mw-run-count", case,
                      f"{len(runs)} runs of >= {mdi} consecutive exceedances {runs} but changepoints {cpts}", key,
                      expected=runs, observed=cpts)
        return False
    for (a, b), c in zip(runs, cpts):
        mx = max(scores[a:b])
        if not (a <= c < b) or not (scores[c] >= mx - tol_ties):
            acc.violation("mw-peak-of-run", case,
                          f"run [{a},{b}) has maximum {mx!r} at {[i for i in range(a, b) if scores[i] == mx]}, reported changepoint {c}", key)
            return False
    return True


def level_value(lv, thr):
    if lv == 0:
        return 0.0
    if lv == 1:
        return thr
    if lv == 2:
        return float(np.nextafter(thr, np.inf))
    if lv == 4:  # a NEGATIVE score (user-defined and cost-based scores may be negative)
        return -1.5 * thr
    return 2.0 * thr


def check_case(acc, case):
    acc.ev()
    acc.sample(case)
    fam = case["fam"]
    key = {"fam": fam}
    try:
        with core.case_timer(case.get("timeout", core.CASE_TIMEOUT_S)):
            if fam == "place":
                n, b = case["n"], case["b"]
                B = 64
                cpts, sc, sc2, thr = mw(n, 1, b, EncodingChangeScore(base=B), 1.0)
                for t in range(n):
                    if b <= t <= n - b:
                        want = float(1 + (t - b) + B * t + B * B * (t + b))
                        if sc[t] != want:
                            got = EncodingChangeScore.decode(sc[t], B) if sc[t] >= 1 else None
                            acc.violation("mw-window-placement", case,
                                          f"score at t={t} was computed on cut {got}, expected {(t-b, t, t+b)}", key)
                            return
                    elif sc[t] != 0.0:
                        acc.violation("mw-score-outside-range", case, f"score at t={t} is {sc[t]!r}, expected 0 (b={b}, n={n})", key)
                        return
                if not np.array_equal(sc, sc2):
                    acc.violation("mw-scores-attr", case, "detector.scores differs from transform_scores", key)
                check_detection(acc, case, key, list(sc), cpts, thr, 1)
                acc.nt()
                acc.outcome(f"K={len(cpts)}")
                return
            if fam in ("detect", "tuned"):
                n, b, p, mdi = case["n"], case["b"], case["p"], case["mdi"]
                levels = case["levels"]
                pos = list(range(b, n - b + 1))
                if fam == "detect":
                    default_det = None
                    from skchange.change_detectors import MovingWindow

                    thr = 1.0 * MovingWindow.get_default_threshold(n, p, b, 0.01)
                    vals = [level_value(lv, thr) for lv in levels]
                    thr_scale, level = 1.0, None
                else:
                    vals = [float(lv) for lv in levels]
                    thr_scale, level = None, case["level"]
                T = np.zeros((n + 1, n + 1, n + 1, p))
                for t, v in zip(pos, vals):
                    T[:, t, :, (t % p)] = v
                cpts, sc, sc2, thr_rb = mw(n, p, b, TableChangeScore(T), thr_scale, mdi, level=level)
                if fam == "detect" and thr_rb != thr:
                    acc.violation("mw-threshold-readback", case, f"threshold_ {thr_rb!r} != default {thr!r}", key)
                    return
                want = np.zeros(n)
                want[pos] = vals
                if not np.array_equal(sc, want) or not np.array_equal(sc2, want):
                    acc.violation("mw-scores-table", case, f"scores {sc.tolist()} != column sums of the table {want.tolist()}", key)
                    return
                check_detection(acc, case, key, list(sc), cpts, thr_rb, mdi)
                if any(s > thr_rb for s in sc):
                    acc.nt()
                acc.outcome(f"K={len(cpts)}")
                return
            if fam == "data":
                check_data(acc, case, key)
    except core.CaseTimeout:
        acc.violation("timeout", case, "call did not return within the per-case time limit", key)
    except Exception as e:
        acc.violation("mw-raised", case, f"{type(e).__name__}: {e}", dict(key, exc=type(e).__name__))


def make_score(name):
    from skchange.change_scores import CUSUM, ChangeScore
    from skchange.costs import GaussianVarCost, L2Cost

    from skchange.costs import GaussianCovCost

    return {"CUSUM": lambda: CUSUM(), "L2": lambda: ChangeScore(L2Cost()), "L2cost": lambda: L2Cost(),
            "GV": lambda: ChangeScore(GaussianVarCost()), "Cov": lambda: GaussianCovCost()}[name]()


def check_data(acc, case, key):
    X = np.array(case["x"], dtype=float)
    if X.ndim == 1:
        X = X.reshape(-1, 1)
    n, p = X.shape
    b, mdi, ts = case["b"], case.get("mdi", 1), case["thr_scale"]
    fr = case.get("fit_rows")
    try:
        cpts, sc, sc2, thr = mw(n, p, b, make_score(case["score"]), ts, mdi, X=pd.DataFrame(X), level=case.get("level"), fit_rows=fr)
    except RuntimeError:
        if case["score"] != "Cov":
            raise
        acc.count("cov_data_with_a_singular_window_skipped")
        return
    pos = list(range(b, n - b + 1))
    want = np.zeros(n)
    if case["score"] == "Cov":
        # multivariate cost: oracle = the DEFINITION C(t-b,t+b) - C(t-b,t) - C(t,t+b), each from a fresh cost on exactly those rows
        mk = lambda: make_score("Cov")  # noqa: E731
        want[pos] = [util.whole_cost(mk, X[t - b:t + b]) - util.whole_cost(mk, X[t - b:t]) - util.whole_cost(mk, X[t:t + b]) for t in pos]
    else:
        ref = make_score("L2" if case["score"] == "L2cost" else case["score"]).fit(X)
        want[pos] = ref.evaluate(np.array([(t - b, t, t + b) for t in pos])).sum(axis=1)
    if case.get("large_level") and case["score"] in ("CUSUM", "L2cost"):
        # independent of the scorer classes: the squared-error change score in exact rational arithmetic
        from fractions import Fraction

        def rss(rows):
            m = sum(Fraction(v) for v in rows) / len(rows)
            return sum((Fraction(v) - m) ** 2 for v in rows)

        col = [float(v) for v in X[:, 0]]
        for t in pos:
            ex = float(rss(col[t - b:t + b]) - rss(col[t - b:t]) - rss(col[t:t + b]))
            ex = ex ** 0.5 if case["score"] == "CUSUM" else ex
            if not util.close(want[t], ex, 1e-8):
                acc.violation("mw-score-definition", case, f"reference scorer gives {want[t]!r} at t={t}; exact squared-error change score {ex!r}", key)
                return
    for t in range(n):
        if not util.close(sc[t], want[t], 1e-8):
            acc.violation("mw-score-definition", case,
                          f"score at t={t} is {sc[t]!r}; change score of X[{t-b}:{t}] vs X[{t}:{t+b}] is {want[t]!r}", key)
            return
    if not check_detection(acc, case, key, list(sc), cpts, thr, mdi):
        return
    if fr:
        if cpts:
            acc.nt()
        acc.outcome(f"K={len(cpts)}")
        return
    # time reversal
    Xr = X[::-1].copy()
    cr, scr, _, thr_r = mw(n, p, b, make_score(case["score"]), ts, mdi, X=pd.DataFrame(Xr), level=case.get("level"))
    for t in pos:
        if not util.close(scr[t], sc[n - t], 1e-8):
            acc.violation("mw-reversal-scores", case, f"reversed series: score at t={t} is {scr[t]!r}, original at n-t={n-t} is {sc[n-t]!r}", key)
            return
    if not util.close(thr, thr_r, 1e-9):
        acc.violation("mw-reversal-threshold", case, f"threshold {thr!r} vs reversed {thr_r!r}", key)
        return
    # discrete outputs only where margins are clear
    margin_ok = all(
        abs(sc[t] - thr) > 1e-9 * max(1.0, abs(thr)) or (sc[t] == thr and scr[n - t] == thr_r and thr == thr_r)
        for t in pos
    )
    if margin_ok:
        flags = [bool(s > thr) for s in sc]
        for a, e in refmodels.runs_of_true(flags):
            seg = sorted(sc[a:e], reverse=True)
            if len(seg) > 1 and seg[0] - seg[1] <= 1e-9 * max(1.0, abs(seg[0])):
                margin_ok = False
    if margin_ok:
        if sorted(n - c for c in cpts) != cr:
            acc.violation("mw-reversal-changepoints", case, f"changepoints {cpts}, reversed series gives {cr}, expected {sorted(n - c for c in cpts)}", key)
    else:
        acc.count("reversal_cpts_skipped_for_margin")
    if cpts:
        acc.nt()
    acc.outcome(f"K={len(cpts)}")


# -------------------------------------------------------------------------------------


def mdis(b):
    return list(range(1, int(max(1, b / 2 - 1)) + 1))


def place_cases(tier):
    top = 26 if tier == "quick" else 48
    for n in range(2, top + 1):
        for b in range(1, n // 2 + 1):
            yield {"fam": "place", "n": n, "b": b}


def detect_cases(tier):
    cfgs = [(2, 1), (3, 1), (4, 1), (4, 2), (5, 2), (6, 1), (6, 3), (7, 3), (8, 4), (8, 2), (9, 3), (12, 6), (14, 6), (16, 6), (18, 8), (18, 6), (20, 8)]
    if tier == "thorough":
        cfgs += [(7, 1), (8, 1), (10, 2), (12, 3), (17, 6), (19, 6), (22, 8), (24, 10), (24, 8)]
    full_max = 6 if tier == "quick" else 8
    for n, b in cfgs:
        m = n - 2 * b + 1
        for mdi in mdis(b):
            for p in (1, 2):
                if m <= full_max:
                    it = itertools.product((0, 1, 2, 3), repeat=m)
                else:
                    it = dev_vectors(m, (1, 2, 3), 3 if tier == "quick" else 4)
                for lv in it:
                    if p == 2 and (sum(lv) % 3):  # p=2 on a fixed third of the tables
                        continue
                    yield {"fam": "detect", "n": n, "b": b, "p": p, "mdi": mdi, "levels": list(lv)}
            if m <= 5:  # tables with negative scores
                for lv in itertools.product((4, 2, 3), repeat=m):
                    if 4 in lv:
                        yield {"fam": "detect", "n": n, "b": b, "p": 1, "mdi": mdi, "levels": list(lv)}


def dev_vectors(m, nz, d):
    for k in range(0, d + 1):
        for pos in itertools.combinations(range(m), k):
            # deviations are most interesting when adjacent: keep all position sets
            for vals in itertools.product(nz, repeat=k):
                v = [0] * m
                for i, x in zip(pos, vals):
                    v[i] = x
                yield tuple(v)


def tuned_cases(tier):
    cfgs = [(4, 1), (5, 2), (6, 2), (8, 3), (14, 6)] + ([(7, 2), (16, 6), (18, 8)] if tier == "thorough" else [])
    for n, b in cfgs:
        m = n - 2 * b + 1
        for mdi in mdis(b):
            for level in (0.1, 0.3, 0.5):
                for lv in itertools.product((0, 1, 2, 3) if m <= 4 else (0, 1, 3), repeat=m):
                    yield {"fam": "tuned", "n": n, "b": b, "p": 1, "mdi": mdi, "levels": list(lv), "level": level}


def data_cases(tier, seed):
    # multivariate cost (one output column whatever p is) on two generic columns
    for n in (6, 7, 8) if tier == "quick" else (6, 7, 8, 9, 10, 11):
        for xs in itertools.product((0, 3), repeat=n):
            yield {"fam": "data", "x": util.two_generic_columns(xs), "score": "Cov", "b": 3, "thr_scale": 0.1}
    a, bb = util.seed_affine(seed)
    top3 = 7 if tier == "quick" else 9
    for alph in ((0, 1, 3), tuple(a + bb * x for x in (0, 1, 3))):
        for n in range(2, top3 + 1):
            for xs in itertools.product(alph, repeat=n):
                for score, bs in (("CUSUM", (1, 2, 3)), ("L2cost", (1, 2)), ("GV", (2, 3))):
                    for b in bs:
                        if n < 2 * b:
                            continue
                        for ts in (0.0, 0.2) + ((None,) if b == 2 else ()):
                            yield {"fam": "data", "x": list(xs), "score": score, "b": b, "thr_scale": ts,
                                   "level": 0.3 if ts is None else None}
    # a LARGE LEVEL next to a small spread (2**20 and 2**20 + 3): with bandwidths 1, 2 (and 4) every prefix sum, mean and
    # variance is exact in binary64, so scores, reversal and detections are compared as strictly as on the base alphabet;
    # a shortcut that judges "nothing happens here" with a tolerance relative to the level is wrong on every one of them
    for n in range(2, (8 if tier == "quick" else 10) + 1):
        for xs in itertools.product((LEVEL20, LEVEL20 + 3), repeat=n):
            for score, bs in (("CUSUM", (1, 2, 4)), ("L2cost", (1, 2)), ("GV", (2,))):
                for b in bs:
                    if n >= 2 * b:
                        yield {"fam": "data", "x": list(xs), "score": score, "b": b, "thr_scale": 0.2, "large_level": True}
    for n in (4, 5) if tier == "quick" else (4, 5, 6):
        for flat in itertools.product((0, 3), repeat=2 * n):
            x = [list(flat[2 * i:2 * i + 2]) for i in range(n)]
            for b in (1, 2):
                yield {"fam": "data", "x": x, "score": "CUSUM", "b": b, "thr_scale": 0.1}
    # three columns (aggregation over all columns)
    for n in (6, 7):
        for xs in itertools.product((0, 3), repeat=n):
            yield {"fam": "data", "x": util.three_columns(xs), "score": "CUSUM" if n == 6 else "L2cost", "b": 2, "thr_scale": 0.1}
    # fitted on a shorter prefix, predicting the full series
    for n in (7, 8) if tier == "quick" else (7, 8, 9, 10):
        for xs in itertools.product((0, 3), repeat=n):
            for k, ts in ((4, 0.2), (n - 2, None)):
                yield {"fam": "data", "x": list(xs), "score": "CUSUM", "b": 2, "thr_scale": ts, "level": 0.3 if ts is None else None, "fit_rows": k}
    # long windows so that min_detection_interval > 1 is exercised on data
    n = 12 if tier == "quick" else 14
    for xs in itertools.product((0, 4), repeat=n):
        for mdi in (1, 2):
            yield {"fam": "data", "x": list(xs), "score": "CUSUM", "b": 6, "mdi": mdi, "thr_scale": 0.1}


def long_cases(tier):
    # very long single cases (block boundaries of a chunked implementation fall inside the data)
    for n in (2500,) if tier == "quick" else (2500, 9000):
        for score, b, mdi, ts in (("CUSUM", 25, 3, 1.0), ("L2cost", 40, 1, 2.0), ("GV", 30, 2, 1.0)):
            yield {"fam": "data", "x": util.very_long_series(n), "score": score, "b": b, "mdi": mdi, "thr_scale": ts, "timeout": 900}
    for n in (16, 24) if tier == "quick" else (16, 24, 32, 40):
        for b, mdi in ((4, 1), (6, 2), (5, 1), (8, 3)):
            if n < 2 * b:
                continue
            for cps, xs in util.structured_series(n, 2, (0.0, 3.0)):
                if len(cps) == 2 and (cps[0] * 3 + cps[1]) % 3 and n > 16:
                    continue
                for score, ts in (("CUSUM", 0.5), ("L2cost", 1.0)):
                    yield {"fam": "data", "x": list(xs), "score": score, "b": b, "mdi": mdi, "thr_scale": ts}


FAMILIES = {"long": lambda t, s: long_cases(t), "place": lambda t, s: place_cases(t), "detect": lambda t, s: detect_cases(t),
            "tuned": lambda t, s: tuned_cases(t), "data": lambda t, s: data_cases(t, s)}
NSH = {"long": 32, "place": 8, "detect": 64, "tuned": 16, "data": 64}


def shards(tier, seed):
    return [(fam, tier, seed, i, k) for fam, k in NSH.items() for i in range(k)]


def bounds(tier, seed):
    return {
        "place": "every (n, b) with 1 <= b, 2b <= n <= 26 (quick) / 48 (thorough)",
        "detect_configs(n,b)": "quick: (2,1),(3,1),(4,1),(4,2),(5,2),(6,1),(6,3),(7,3),(8,4),(8,2),(9,3),(12,6),(14,6),(16,6),(18,8),(18,6),(20,8); thorough adds 9 more; full level tables for <=6 (quick) / <=8 (thorough) positions, otherwise <=3 / <=4 deviations",
        "levels": "{0, thr, nextafter(thr,+inf), 2*thr} with thr the detector's own default threshold (read back)",
        "min_detection_interval": "1..max(1, b/2-1)",
        "long": "piecewise-constant textured series n in (16,24) quick / up to 40, <= 2 changes, bandwidth in (4,5,6,8), mdi up to 3",
        "data": "all series over (0,1,3) and its seed-affine image, n<=7 (quick) / 9; all series over (2**20, 2**20+3) n<=8 / 10 (large level, small spread; bandwidths 1, 2, 4); 2-column (0,3) n<=5/6; (0,4) n=12/14 with bandwidth 6, mdi in (1,2)",
    }


def run_shard(shard):
    fam, tier, seed, i, k = shard
    acc = core.Acc()
    for j, case in enumerate(FAMILIES[fam](tier, seed)):
        if j % k == i:
            check_case(acc, case)
    return acc


def replay(case):
    acc = core.Acc()
    check_case(acc, case)
    return acc.violations
