"""C09 -- circular binary segmentation reports greedy disjoint above-threshold anomalies.

Same architecture as C07 with 4-point cuts: (i) candidate enumeration (one-hot table per
admissible inner interval; dominating values on every evaluable inadmissible one),
(ii) per-interval maximisation on all small tables, (iii) greedy selection with overlap
removal decided by refinement against the nondeterministic specification, (iv) built-in
costs on every small-alphabet series.
"""

from __future__ import annotations

import itertools

import numpy as np
import pandas as pd

from smc import core, refmodels, util
from smc.envs import TableLocalScore

ID = "C09"
LEVEL = "model_checking"
RULE = (
    "one case = (n, p, msl, max_interval_length, growth_factor, threshold, local-score table or data series). "
    "Families: 'onehot' = for every candidate interval of every configuration, one table per admissible inner "
    "interval (value only there) ; 'poison' = every strictly-inside but inadmissible inner interval carries a "
    "dominating value; 'rowmax' = all {0,1,2} tables over one candidate's inner intervals (<=6 inner intervals, "
    "else <=2 deviations); 'greedy' = all assignments of (level in {0, =thr, 2thr, 3thr}, inner interval) to the "
    "distinct candidates of small configurations, <=2 interacting deviations for larger n; 'data' = all series "
    "over small alphabets. states/transitions = nondeterministic greedy specification explored completely per "
    "case; each case is one implementation execution checked for membership. Non-trivial = an anomaly is "
    "reported or a tie between above-threshold candidates exists."
)
ASSUMPTIONS = [
    "numba not installed: kernels run as plain Python/NumPy",
    "admissible inner interval of candidate [s,e): s < a < b < e, b-a >= msl, (a-s)+(e-b) >= msl (from the statement)",
    "a candidate with no admissible inner interval must report a score <= 0 (it can then never be selected, thresholds being >= 0)",
    "candidate [s,e) overlaps anomaly [a,b) iff a < e and s < b",
    "candidate intervals are read from the detector's public `scores` table",
]

LEVELS = (0.0, 1.0, 2.0, 3.0)


def inner_ref(s, e, msl):
    return [(a, b) for a in range(s + 1, e) for b in range(a + 1, e) if b - a >= msl and (a - s) + (e - b) >= msl]


def cbs(n, p, msl, M, growth, scorer, thr_scale, X=None, level=None, fit_rows=None):
    from skchange.anomaly_detectors import CircularBinarySegmentation as CBS

    kw = {} if level is None else {"level": level}
    det = CBS(scorer, threshold_scale=thr_scale, min_segment_length=msl, max_interval_length=M,
              growth_factor=growth, **kw)
    if X is None:
        X = pd.DataFrame(np.zeros((n, p)))
    det.fit(X if not fit_rows else X.iloc[:fit_rows])
    y = det.predict(X)
    core.emit("CircularBinarySegmentation", y, n=len(X), p=X.shape[1], msl=msl)
    if len(y) and y["ilocs"].array.closed != "left":
        raise AssertionError("anomaly intervals are not left-closed")
    an = [(int(iv.left), int(iv.right)) for iv in y["ilocs"]]
    sc = det.scores
    rows = [(int(a), int(b), (int(c), int(d)), float(v)) for a, b, c, d, v in
            zip(sc["interval_start"], sc["interval_end"], sc["argmax_anomaly_start"], sc["argmax_anomaly_end"], sc["score"])]
    return an, rows, float(det.threshold_)


def check_rows(acc, case, key, rows, n, msl, agg, tol=util.TOL):
    if not rows:
        acc.violation("cbs-no-candidates", case, "no candidate interval reported", key)
        return False
    for s, e, pk, v in rows:
        if not (0 <= s < e <= n):
            acc.violation("cbs-bad-candidate", case, f"candidate [{s},{e}) outside [0,{n}]", key)
            return False
        inner = inner_ref(s, e, msl)
        if not inner:
            if v > 0:
                acc.violation("cbs-empty-candidate-scored", case, f"candidate [{s},{e}) admits no inner interval but reports score {v!r}", key)
                return False
            continue
        vals = agg(s, e, inner)
        mx = max(vals)
        if not util.close(v, mx, tol):
            acc.violation("cbs-row-max", case, f"candidate [{s},{e}) reports score {v!r}; maximum over admissible inner intervals is {mx!r}", key)
            return False
        d = dict(zip(inner, vals))
        if pk not in d or not util.close(d[pk], mx, tol):
            acc.violation("cbs-row-argmax", case,
                          f"candidate [{s},{e}) reports inner interval {pk}, not an argmax; argmax set {[iv for iv in inner if util.close(d[iv], mx, tol)][:5]}", key)
            return False
    return True


def check_greedy(acc, case, key, rows, an, thr, msl):
    rows = [r for r in rows if inner_ref(r[0], r[1], msl)]
    starts = [r[0] for r in rows]
    ends = [r[1] for r in rows]
    picks = [r[2] for r in rows]
    scores = [r[3] for r in rows]
    outs, st, tr = refmodels.greedy_spec_outcomes(
        scores, picks, starts, ends, thr, lambda pk, j: pk[1] > starts[j] and pk[0] < ends[j])
    acc.states += st
    acc.transitions += tr
    acc.count("impl_traces_checked")
    if sorted(an) != list(an):
        acc.violation("cbs-anomalies-not-sorted", case, f"anomalies {an}", key)
        return False, len(outs)
    if tuple(an) not in outs:
        acc.violation("cbs-greedy-refinement", case,
                      f"reported anomalies {an} are not an output of the greedy specification; allowed: {sorted(outs)[:6]} (threshold {thr!r})",
                      key, expected=sorted(outs)[:6], observed=an)
        return False, len(outs)
    if len(outs) > 1:
        acc.count("cases_with_tie_nondeterminism")
    return True, len(outs)


def table_agg(T):
    def agg(s, e, inner):
        return [float(T[s, a, b, e, :].sum()) for a, b in inner]
    return agg


_IV_CACHE = {}


def impl_intervals(n, msl, M, growth):
    key = (n, msl, M, growth)
    if key not in _IV_CACHE:
        try:
            _, rows, _ = cbs(n, 1, msl, M, growth, TableLocalScore(np.zeros((n + 1,) * 4 + (1,))), 1.0)
            _IV_CACHE[key] = sorted({(r[0], r[1]) for r in rows})
        except Exception:
            _IV_CACHE[key] = None
    return _IV_CACHE[key]


def some_inner(s, e, msl):
    inner = inner_ref(s, e, msl)
    if len(inner) <= 4:
        return inner
    pick = {inner[0], inner[-1], inner[len(inner) // 2], min(inner, key=lambda iv: (iv[1] - iv[0], iv[0])),
            max(inner, key=lambda iv: (iv[1] - iv[0], -iv[0]))}
    return sorted(pick)


def fill(T, cells, unit, p, decoy=()):
    for (s, a, b, e, lv) in cells:
        if p == 1:
            T[s, a, b, e, 0] = lv * unit
        else:
            T[s, a, b, e, 0] = max(lv - 1.0, 0.0) * unit
            T[s, a, b, e, 1] = min(lv, 1.0) * unit
    for (s, a, b, e, lv) in decoy:
        T[s, a, b, e, 0] += lv * unit
        T[s, a, b, e, 1] -= lv * unit


def check_case(acc, case):
    acc.ev()
    acc.sample(case)
    fam = case["fam"]
    key = {"fam": fam}
    try:
        with core.case_timer(case.get("timeout", core.CASE_TIMEOUT_S)):
            if fam == "data":
                check_data(acc, case, key)
                return
            n, p, msl, M, g = case["n"], case.get("p", 1), case["msl"], case["M"], case["growth"]
            thr_scale = case.get("thr_scale", 1.0)
            thr = thr_scale * (2 * p * np.log(n * M))
            unit = thr if thr > 0 else 1.0
            T = np.zeros((n + 1, n + 1, n + 1, n + 1, p))
            if fam == "poison":
                s, e = case["cand"]
                adm = set(inner_ref(s, e, msl))
                for a in range(s + 1, e):
                    for b in range(a + 1, e):
                        if (a, b) not in adm:
                            T[s, a, b, e, :] = 50.0 * unit
                for (a, b) in adm:
                    T[s, a, b, e, 0] = 1.0 * unit * ((a + 2 * b) % 3)
            elif case.get("shape") == "neg":
                # every score NEGATIVE (level - 5 units): maxima and maximisers are still defined
                T[..., 0] = -5.0 * unit
                for (s, a, b, e, lv) in case["cells"]:
                    T[s, a, b, e, 0] = (lv - 5.0) * unit
            elif case.get("shape") == "tight":
                # level 1 = the threshold exactly; levels 2, 3 exceed it by 2^-20, 2^-19 of its size
                for (s, a, b, e, lv) in case["cells"]:
                    T[s, a, b, e, 0] = (1.0 + (lv - 1.0) * 2.0 ** -20) * unit
            else:
                fill(T, case["cells"], unit, p, case.get("decoy", ()))
            an, rows, thr_rb = cbs(n, p, msl, M, g, TableLocalScore(T), thr_scale)
            if thr_rb != thr:
                acc.violation("cbs-threshold-readback", case, f"threshold_ {thr_rb!r} != scale*default {thr!r}", key)
                return
            if not any(inner_ref(r[0], r[1], msl) for r in rows):
                acc.count("cases_without_usable_candidate")  # not demanded by the statement; counted only
            if not check_rows(acc, case, key, rows, n, msl, table_agg(T)):
                return
            ok, nouts = check_greedy(acc, case, key, rows, an, thr_rb, msl)
            for a, b in an:
                if b - a < msl or a <= 0 or b >= n:
                    acc.violation("cbs-anomaly-shape", case, f"anomaly [{a},{b}) shorter than msl={msl} or not strictly inside [0,{n})", key)
            if an or nouts > 1:
                acc.nt()
            acc.outcome(f"K={len(an)}")
            if case.get("mono") and thr > 0:
                an2, rows2, thr2 = cbs(n, p, msl, M, g, TableLocalScore(T), 2.0 * thr_scale)
                acc.count("threshold_pairs")
                if not set(an2) <= set(an):
                    acc.violation("cbs-threshold-monotonicity", case, f"threshold {thr_rb!r}: {an}; threshold {thr2!r}: {an2} (not a subset)", key)
                check_greedy(acc, case, key, rows2, an2, thr2, msl)
    except core.CaseTimeout:
        acc.violation("timeout", case, "predict did not return within the per-case time limit", key)
    except Exception as e:
        acc.violation("cbs-raised", case, f"{type(e).__name__}: {e}", dict(key, exc=type(e).__name__))


class AbsDevLocalScore:
    pass


def make_score(name):
    from skchange.anomaly_scores import LocalAnomalyScore
    from skchange.costs import GaussianVarCost, L2Cost

    from skchange.costs import GaussianCovCost

    return {"L2cost": lambda: L2Cost(), "L2": lambda: LocalAnomalyScore(L2Cost()),
            "GV": lambda: LocalAnomalyScore(GaussianVarCost()), "Cov": lambda: GaussianCovCost()}[name]()


two_generic_columns = util.two_generic_columns


def check_data(acc, case, key):
    X = np.array(case["x"], dtype=float)
    if X.ndim == 1:
        X = X.reshape(-1, 1)
    n, p = X.shape
    msl, M, g = case["msl"], case["M"], case["growth"]
    if case["score"] == "Cov":
        # multivariate cost: the oracle is the DEFINITION C(s,e) - C(a,b) - C(rows of [s,a) and [b,e) pooled), each term
        # from a fresh cost fitted on exactly those rows and summed over its output columns
        def whole(rows_):
            return float(make_score("Cov").fit(rows_).evaluate(np.array([[0, len(rows_)]])).sum())

        try:
            an, rows, thr = cbs(n, p, msl, M, g, make_score("Cov"), case["thr_scale"], X=pd.DataFrame(X))

            def agg(s, e, inner):
                return [whole(X[s:e]) - whole(X[a:b]) - whole(np.concatenate((X[s:a], X[b:e]))) for a, b in inner]

            if not check_rows(acc, case, key, rows, n, msl, agg, tol=1e-7):
                return
        except RuntimeError:
            acc.count("cov_data_with_a_singular_window_skipped")
            return
        check_greedy(acc, case, key, rows, an, thr, msl)
        if an:
            acc.nt()
        acc.outcome(f"K={len(an)}")
        return
    an, rows, thr = cbs(n, p, msl, M, g, make_score(case["score"]), case["thr_scale"], X=pd.DataFrame(X), level=case.get("level"),
                        fit_rows=case.get("fit_rows"))
    ref = make_score("L2" if case["score"] == "L2cost" else case["score"]).fit(X)

    def agg(s, e, inner):
        return list(map(float, ref.evaluate(np.array([(s, a, b, e) for a, b in inner])).sum(axis=1)))

    if not check_rows(acc, case, key, rows, n, msl, agg, tol=1e-8):
        return
    check_greedy(acc, case, key, rows, an, thr, msl)
    for a, b in an:
        if b - a < msl or a <= 0 or b >= n:
            acc.violation("cbs-anomaly-shape", case, f"anomaly [{a},{b}) shorter than msl={msl} or not strictly inside [0,{n})", key)
    if an:
        acc.nt()
    acc.outcome(f"K={len(an)}")


# -------------------------------------------------------------------------------------


def configs(tier, top, msls=(1, 2, 3)):
    out = []
    for n in range(2, top + 1):
        for msl in msls:
            if n < 2 * msl:
                continue
            for M in sorted({2 * msl, 2 * msl + 1, n, n + 3}):
                if M < 2 * msl:
                    continue
                for g in (1.5, 2.0):
                    out.append((n, msl, M, g))
    return out


def onehot_cases(tier):
    # min_segment_length 4 and 5 only here (cheap): admissibility rules that first differ at msl >= 4
    for (n, msl, M, g) in configs(tier, 9 if tier == "quick" else 11) + configs(tier, 11 if tier == "quick" else 13, (4, 5)):
        ivs = impl_intervals(n, msl, M, g)
        if ivs is None:
            yield {"fam": "onehot", "n": n, "msl": msl, "M": M, "growth": g, "cells": []}
            continue
        for (s, e) in ivs:
            inner = inner_ref(s, e, msl)
            if not inner:
                yield {"fam": "onehot", "n": n, "msl": msl, "M": M, "growth": g, "cells": []}
            for (a, b) in inner:
                yield {"fam": "onehot", "n": n, "p": 1 if (a + b) % 2 else 2, "msl": msl, "M": M, "growth": g,
                       "cells": [(s, a, b, e, 2.0)], "thr_scale": 1.0}
            yield {"fam": "poison", "n": n, "msl": msl, "M": M, "growth": g, "cand": [s, e], "thr_scale": 0.0}


def rowmax_cases(tier):
    for (n, msl, M, g) in configs(tier, 7 if tier == "quick" else 8):
        ivs = impl_intervals(n, msl, M, g) or []
        for (s, e) in ivs:
            inner = inner_ref(s, e, msl)
            if not inner:
                continue
            if len(inner) <= (6 if tier == "quick" else 7):
                it = itertools.product((0, 1, 2), repeat=len(inner))
            else:
                it = dev(len(inner), (1, 2), 2)
            for vals in it:
                cells = [(s, a, b, e, float(v)) for (a, b), v in zip(inner, vals) if v]
                p = 2 if (sum(vals) % 4 == 3) else 1
                decoy = []
                if p == 2 and len(inner) > 1:
                    j = [i for i, v in enumerate(vals) if v == max(vals)][0]
                    a, b = inner[(j + 1) % len(inner)]
                    decoy = [(s, a, b, e, 2.0)]
                yield {"fam": "rowmax", "n": n, "p": p, "msl": msl, "M": M, "growth": g, "cells": cells, "decoy": decoy,
                       "thr_scale": 0.0}
                if p == 1 and len(inner) <= 4:
                    yield {"fam": "rowmax", "n": n, "p": 1, "msl": msl, "M": M, "growth": g, "cells": cells, "thr_scale": 0.0, "shape": "neg"}


def dev(m, nz, d):
    for k in range(0, d + 1):
        for pos in itertools.combinations(range(m), k):
            for vals in itertools.product(nz, repeat=k):
                v = [0] * m
                for i, x in zip(pos, vals):
                    v[i] = x
                yield tuple(v)


def greedy_cases(tier):
    maxiv = 6 if tier == "quick" else 7
    cap = 60000 if tier == "quick" else 600000
    for (n, msl, M, g) in configs(tier, 8 if tier == "quick" else 10):
        ivs = [iv for iv in (impl_intervals(n, msl, M, g) or []) if inner_ref(iv[0], iv[1], msl)]
        if not ivs or len(ivs) > maxiv:
            continue
        opts = []
        for (s, e) in ivs:
            o = [None]
            for (a, b) in some_inner(s, e, msl):
                for lv in LEVELS[1:]:
                    o.append((s, a, b, e, lv))
            opts.append(o)
        total = 1
        for o in opts:
            total *= len(o)
        if total > cap:
            continue
        for combo in itertools.product(*opts):
            cells = [c for c in combo if c is not None]
            yield {"fam": "greedy", "n": n, "p": 1, "msl": msl, "M": M, "growth": g, "cells": cells, "mono": bool(cells)}


def greedy_dev_cases(tier):
    ns = (8, 9, 10, 12) if tier == "quick" else (8, 9, 10, 11, 12, 13, 14)
    for n in ns:
        for msl in (1, 2, 3):
            for g in (1.5, 2.0):
                for M in (n, max(2 * msl, n // 2)):
                    ivs = [iv for iv in (impl_intervals(n, msl, M, g) or []) if inner_ref(iv[0], iv[1], msl)]
                    one = [(s, a, b, e) for (s, e) in ivs for (a, b) in some_inner(s, e, msl)]
                    for c in one:
                        for lv in LEVELS[1:]:
                            yield {"fam": "greedy-dev", "n": n, "p": 1, "msl": msl, "M": M, "growth": g,
                                   "cells": [c + (lv,)], "mono": True}
                            for shape in ("tight", "neg"):
                                yield {"fam": "greedy-dev", "n": n, "p": 1, "msl": msl, "M": M, "growth": g,
                                       "cells": [c + (lv,)], "mono": False, "shape": shape}
                    for x, y in itertools.combinations(one, 2):
                        if (x[0], x[3]) == (y[0], y[3]):
                            continue
                        if not (x[0] < y[3] and y[0] < x[3]):  # candidates must overlap to interact
                            continue
                        for lx, ly in ((2.0, 2.0), (3.0, 2.0), (2.0, 3.0)):
                            yield {"fam": "greedy-dev", "n": n, "p": 2 if (x[1] + y[2]) % 4 == 0 else 1, "msl": msl, "M": M,
                                   "growth": g, "cells": [x + (lx,), y + (ly,)], "mono": lx != ly}
                            if lx != ly and (x[1] + y[2]) % 3 == 0:
                                yield {"fam": "greedy-dev", "n": n, "p": 1, "msl": msl, "M": M,
                                       "growth": g, "cells": [x + (lx,), y + (ly,)], "mono": False, "shape": "tight"}


def data_cases(tier, seed):
    a, b = util.seed_affine(seed)
    top2 = 9 if tier == "quick" else 10
    top3 = 7 if tier == "quick" else 8
    for alph, top in (((0, 4), top2), ((0, 1, 3), top3), (tuple(a + b * x for x in (0, 1, 3)), top3)):
        for n in range(3, top + 1):
            for xs in itertools.product(alph, repeat=n):
                for score, msl in (("L2cost", 1), ("L2", 2), ("GV", 2)):
                    if n < 2 * msl:
                        continue
                    for ts in (0.0, 0.05) + ((None,) if score == "L2" else ()):
                        yield {"fam": "data", "x": list(xs), "score": score, "msl": msl, "M": n, "growth": 1.5,
                               "thr_scale": ts, "level": 0.3 if ts is None else None}
    for n in (4, 5):
        for flat in itertools.product((0, 3), repeat=2 * n):
            x = [list(flat[2 * i:2 * i + 2]) for i in range(n)]
            yield {"fam": "data", "x": x, "score": "L2cost", "msl": 1, "M": n, "growth": 2.0, "thr_scale": 0.05}
    # three columns (aggregation over all columns)
    for n in (6, 7):
        for xs in itertools.product((0, 3), repeat=n):
            yield {"fam": "data", "x": util.three_columns(xs), "score": "L2cost", "msl": 1 if n == 6 else 2, "M": n, "growth": 1.5, "thr_scale": 0.05}
    # multivariate cost (one output column whatever p is), two generic columns
    for n in (7, 8) if tier == "quick" else (7, 8, 9, 10, 11):
        for xs in itertools.product((0, 3), repeat=n):
            yield {"fam": "data", "x": two_generic_columns(xs), "score": "Cov", "msl": 3, "M": n, "growth": 1.5, "thr_scale": 0.05}
    # fitted on a shorter prefix, predicting the full series
    for n in (7, 8) if tier == "quick" else (7, 8, 9):
        for xs in itertools.product((0, 3), repeat=n):
            for k, ts in ((3, 0.05), (n - 3, None)):
                yield {"fam": "data", "x": list(xs), "score": "L2cost", "msl": 1, "M": 6, "growth": 1.5, "thr_scale": ts,
                       "level": 0.3 if ts is None else None, "fit_rows": k}


def long_cases(tier):
    # very long single cases (block boundaries of a chunked implementation fall inside the data)
    for n in (700,) if tier == "quick" else (700, 1600):
        for score, msl, M, g, ts in (("L2cost", 3, 40, 1.5, 0.5), ("L2", 5, 60, 2.0, 1.0)):
            yield {"fam": "data", "x": util.very_long_series(n, 37), "score": score, "msl": msl, "M": M, "growth": g, "thr_scale": ts,
                   "timeout": 900}
    # realistic lengths with candidate intervals as long as the series (64 and more samples): every 0- and 1-change
    # placement and a fixed 16th (thorough: quarter) of the 2-change placements; each candidate's score and inner interval
    # are compared with the maximum over ALL admissible inner intervals
    for n, msl, M, g, score in ((72, 4, 72, 1.5, "L2cost"),) if tier == "quick" else ((72, 4, 72, 1.5, "L2cost"), (80, 3, 80, 2.0, "L2"), (96, 6, 96, 1.5, "L2cost")):
        for cps, xs in util.structured_series(n, 2, (0.0, 3.0)):
            if len(cps) == 2 and (cps[0] * 3 + cps[1]) % (16 if tier == "quick" else 4):
                continue
            yield {"fam": "data", "x": list(xs), "score": score, "msl": msl, "M": M, "growth": g, "thr_scale": 0.3, "timeout": 300}
    for n in (12, 16) if tier == "quick" else (12, 16, 20, 24):
        for msl, M, g in ((1, 8, 1.5), (4, n, 1.5), (5, 12, 2.0), (2, 10, 1.25)):
            if n < 2 * msl or M < 2 * msl:
                continue
            for cps, xs in util.structured_series(n, 2, (0.0, 3.0)):
                if len(cps) == 2 and (cps[0] * 3 + cps[1]) % 3 and n > 12:
                    continue
                yield {"fam": "data", "x": list(xs), "score": "L2cost" if msl != 2 else "L2", "msl": msl, "M": M, "growth": g, "thr_scale": 0.3}


FAMILIES = {"long": lambda t, s: long_cases(t), "onehot": lambda t, s: onehot_cases(t), "rowmax": lambda t, s: rowmax_cases(t),
            "greedy": lambda t, s: greedy_cases(t), "greedy-dev": lambda t, s: greedy_dev_cases(t),
            "data": lambda t, s: data_cases(t, s)}
NSH = {"long": 64, "onehot": 24, "rowmax": 32, "greedy": 48, "greedy-dev": 48, "data": 64}


def shards(tier, seed):
    return [(fam, tier, seed, i, k) for fam, k in NSH.items() for i in range(k)]


def bounds(tier, seed):
    return {
        "onehot/poison configs": "n<=9 (quick) / 11, msl<=3 (and msl in (4,5) with n<=11/13), M in {2msl, 2msl+1, n, n+3}, growth in (1.5, 2)",
        "rowmax configs": "n<=7 / 8; all {0,1,2} tables for candidates with <=6/7 inner intervals, <=2 deviations otherwise",
        "greedy": "configs n<=8 / 10 with <=6/7 usable candidates; levels (0,1,2,3) x threshold; inner intervals {first,last,middle,shortest,longest}",
        "greedy-dev": "n in (8,9,10,12) / (8..14), M in {n, n//2}, msl<=3; all single deviations and all pairs on overlapping candidates",
        "shapes": "plain; 'tight' = levels 2, 3 exceed the threshold by only 2^-20, 2^-19 of its size; 'neg' = every score negative (level - 5 units); on rowmax (<=4 inner intervals) and greedy-dev",
        "long": "piecewise-constant textured series n in (12,16) quick / up to 24, <= 2 changes, msl in (1,2,4,5); realistic length n = 72 (thorough also 80, 96) with max_interval_length = n",
        "data": "GaussianCovCost on 2 generic columns n in (7,8) / (7..11), msl 3; all series over (0,4) n<=9/10; (0,1,3) and seed-affine image n<=7/8; 2-column (0,3) n<=5; L2Cost msl 1, LocalAnomalyScore(L2Cost) msl 2, LocalAnomalyScore(GaussianVarCost) msl 2; thresholds 0, 0.05*default, tuned",
    }


def run_shard(shard):
    fam, tier, seed, i, k = shard
    acc = core.Acc()
    for j, case in enumerate(FAMILIES[fam](tier, seed)):
        if j % k == i:
            check_case(acc, case)
    return acc


def finalize(acc, tier, seed):
    acc.extra["traces_validated"] = int(acc.counters.get("impl_traces_checked", 0))


def replay(case):
    acc = core.Acc()
    check_case(acc, case)
    return acc.violations
