"""C17 -- StatThresholdAnomaliser flags exactly the out-of-range segments."""

from __future__ import annotations

import itertools

import numpy as np
import pandas as pd

from smc import core, dets, util
from smc import histories as H
from smc.envs import FixedChangeDetector

ID = "C17"
LEVEL = "exploration"
RULE = (
    "family 'fixed': one case = (changepoint subset returned by a user-defined detector, series over (-2,0,2), statistic, "
    "bounds); every changepoint subset x every series for n <= 5 (quick) / 6 (thorough) x {mean, median, np.std, np.var, user max, user "
    "range, positional first-last} x 5 bound pairs. family 'real': PELT / MovingWindow / SeededBinarySegmentation on every (0,4) series n <= 8/9 "
    "and on 2 index kinds. family 'prefit': the same detectors with data-dependent fits (tuned thresholds, n-dependent "
    "penalty), fitted on OTHER data before being wrapped, on every (0,4) series n <= 7/8. Non-trivial = at least one segment is flagged and at least one is not, or two adjacent "
    "segments are flagged."
)
ASSUMPTIONS = [
    "segments are delimited by a clone of the wrapped detector fitted and run on the same data",
    "the user's detector object must stay unfitted with an unchanged structural hash of its __dict__",
]


def urange(x):
    return float(np.max(x) - np.min(x))


def umax(x):
    return float(np.max(x))


def ufirst(x):
    return float(x[0]) - float(x[len(x) - 1])  # positional access: needs the documented plain array


def ustd1(x):
    # sample standard deviation: UNDEFINED (NaN) on a segment of one sample -- NaN is neither below the lower nor above the
    # upper bound, so such a segment is not flagged
    with np.errstate(all="ignore"):
        return np.std(x, ddof=1)


def umeanpos(x):
    # mean of the positive values: NaN on a segment without positive values
    pos = np.asarray(x)[np.asarray(x) > 0]
    return float(pos.mean()) if len(pos) else float("nan")


STATS = {"mean": np.mean, "median": np.median, "max": umax, "range": urange, "std": np.std, "var": np.var, "first-last": ufirst,
         "std-ddof1": ustd1, "mean-positive": umeanpos}
BOUNDS = ((-1.0, 1.0), (0.0, 0.0), (-3.0, 3.0), (-1.0, -1.0), (0.5, 1.5))


def objhash(o):
    c = H.ObjCanon()
    c.walk(o)
    return c.digest()


def check(acc, case, inner, x, stat, lo, hi, index="range", prefit=None):
    from skchange.anomaly_detectors import StatThresholdAnomaliser

    acc.ev()
    key = {"fam": case["fam"], "inner": type(inner).__name__}
    try:
        with core.case_timer():
            X = dets.frame(x, index)
            n = len(X)
            if prefit is not None:
                # the user's detector has been used before: fitted on OTHER data
                inner.fit(dets.frame(prefit, "range"))
            was_fitted = bool(inner.is_fitted)
            h0 = objhash(inner)
            p0 = repr(sorted((k, repr(v)) for k, v in inner.get_params(deep=True).items()))
            sta = StatThresholdAnomaliser(inner, stat=STATS[stat], stat_lower=lo, stat_upper=hi)
            sta.fit(X)
            y = sta.predict(X)
            got = dets.sparse_events(y, "collective")
            # reference
            cps = [int(c) for c in inner.clone().fit(X).predict(X)["ilocs"]]
            b = [0] + cps + [n]
            xv = np.asarray(x, dtype=float).reshape(n, -1)[:, 0]
            want = []
            flags = []
            for i in range(len(b) - 1):
                st = STATS[stat](xv[b[i]:b[i + 1]])
                f = bool(st < lo or st > hi)
                flags.append(f)
                if f:
                    want.append((b[i], b[i + 1]))
            if got != want:
                acc.violation("flagged-segments", case,
                              f"reported {got}; segments {list(zip(b[:-1], b[1:]))} with {stat} outside [{lo},{hi}] are {want}", key,
                              expected=want, observed=got)
            probs = dets.wellformed(y, "collective", n)
            if probs:
                acc.violation("malformed-output", case, f"{probs[:2]}", key)
            if bool(inner.is_fitted) != was_fitted:
                acc.violation("user-detector-fitted", case, "the fitted state of the detector passed by the user changed in StatThresholdAnomaliser.fit", key)
            if objhash(inner) != h0 or repr(sorted((k, repr(v)) for k, v in inner.get_params(deep=True).items())) != p0:
                acc.violation("user-detector-altered", case, "the detector passed by the user was altered", key)
            if getattr(sta, "change_detector_", None) is inner:
                acc.violation("user-detector-not-cloned", case, "change_detector_ is the user's object, not a clone", key)
            adj = any(flags[i] and flags[i + 1] for i in range(len(flags) - 1))
            if (any(flags) and not all(flags)) or adj:
                acc.nt()
            acc.outcome(f"segs={min(len(flags), 5)},flag={min(sum(flags), 4)},adj={int(adj)}")
    except core.CaseTimeout:
        acc.violation("timeout", case, "did not return", key)
    except Exception as e:
        acc.violation("raised", case, f"{type(e).__name__}: {e}", dict(key, exc=type(e).__name__))


def make_real(name):
    import skchange.change_detectors as cd
    from skchange.costs import L2Cost

    return {"PELT": lambda: cd.PELT(L2Cost(), penalty_scale=0.05, min_segment_length=1),
            "MW": lambda: cd.MovingWindow(bandwidth=2, threshold_scale=0.1),
            "SBS": lambda: cd.SeededBinarySegmentation(threshold_scale=0.3, min_segment_length=1, max_interval_length=8)}[name]()


def make_tuned(name):
    """Change detectors whose fit depends on the training data (tuned threshold / n-dependent penalty)."""
    import skchange.change_detectors as cd
    from skchange.costs import L2Cost

    return {"PELT": lambda: cd.PELT(L2Cost(), penalty_scale=0.3, min_segment_length=1),
            "MW": lambda: cd.MovingWindow(bandwidth=2, threshold_scale=None, level=0.3),
            "SBS": lambda: cd.SeededBinarySegmentation(threshold_scale=None, level=0.3, min_segment_length=1, max_interval_length=8)}[name]()


def check_case(acc, case):
    acc.sample(case)
    if case["fam"] == "prefit":
        check(acc, case, make_tuned(case["det"]), case["x"], case["stat"], case["lo"], case["hi"], prefit=case["prefit"])
        return
    if case["fam"] == "fixed":
        check(acc, case, FixedChangeDetector(cpts=tuple(case["cpts"])), case["x"], case["stat"], case["lo"], case["hi"], case.get("index", "range"))
    else:
        check(acc, case, make_real(case["det"]), case["x"], case["stat"], case["lo"], case["hi"], case.get("index", "range"))


def cases(tier, seed):
    q = tier == "quick"
    top = 5 if q else 6
    for n in range(1, top + 1):
        for k in range(0, n):
            for cps in itertools.combinations(range(1, n), k):
                for xs in itertools.product((-2, 0, 2), repeat=n):
                    for stat in STATS:
                        for lo, hi in BOUNDS:
                            if n == top and stat in ("range", "var", "first-last", "max", "std-ddof1", "mean-positive") and (lo, hi) not in ((0.0, 0.0), (0.5, 1.5)):
                                continue
                            yield {"fam": "fixed", "cpts": list(cps), "x": list(xs), "stat": stat, "lo": lo, "hi": hi}
    # MANY segments in one output (up to 13 / 15): every changepoint subset of a series of length 13 (thorough 15) on three
    # fixed series whose segment statistics fall on both sides of the bounds in many patterns
    nn = 13 if q else 15
    many = [[(-2, 0, 2, 2, -2, 0)[(i * i + i // 3) % 6] for i in range(nn)], [(2, -2)[(i // 2) % 2] * (1 + i % 2) for i in range(nn)],
            [((i * 5) % 7) - 3 for i in range(nn)]]
    for mask in range(2 ** (nn - 1)):
        cps = [i + 1 for i in range(nn - 1) if mask >> i & 1]
        xs = many[mask % 3]
        for stat, (lo, hi) in (("mean", (-1.0, 1.0)), ("max", (0.0, 0.0))) if mask % 2 else (("median", (-1.0, -1.0)),):
            yield {"fam": "fixed", "cpts": cps, "x": list(xs), "stat": stat, "lo": lo, "hi": hi}
    # non-default index for the user detector
    for cps in itertools.chain.from_iterable(itertools.combinations(range(1, 5), k) for k in range(0, 4)):
        for xs in itertools.product((-2, 0, 2), repeat=5):
            for ik in ("offset", "datetime", "period", "step2"):
                yield {"fam": "fixed", "cpts": list(cps), "x": list(xs), "stat": "mean", "lo": -1.0, "hi": 1.0, "index": ik}
    # the user's detector was fitted on other data before being wrapped (its fit is data dependent)
    other = {"PELT": [0.0, 4.0] * 12, "MW": [0.0, 0.0, 9.0, 9.0, 0.0, 0.0, 9.0, 9.0, 0.0, 0.0, 9.0, 9.0], "SBS": [0.0, 9.0, 0.0, 9.0, 0.0, 9.0, 0.0, 9.0, 0.0, 9.0]}
    for det in ("PELT", "MW", "SBS"):
        for n in range(4, (7 if q else 8) + 1):
            for xs in itertools.product((0, 4), repeat=n):
                yield {"fam": "prefit", "det": det, "x": list(xs), "stat": "mean", "lo": 1.0, "hi": 3.0, "prefit": other[det]}
    a, b = util.seed_affine(seed)
    for det in ("PELT", "MW", "SBS"):
        for n in range(4, (8 if q else 9) + 1):
            for xs in itertools.product((0, 4), repeat=n):
                yield {"fam": "real", "det": det, "x": list(xs), "stat": "mean", "lo": 1.0, "hi": 3.0}
                yield {"fam": "real", "det": det, "x": list(xs), "stat": "median", "lo": -1.0, "hi": 1.0, "index": "datetime"}
        for xs in itertools.product((a, a + 4 * b), repeat=6):
            yield {"fam": "real", "det": det, "x": list(xs), "stat": "mean", "lo": float(a) + 1.0, "hi": float(a) + 3.0 * b, "index": "offset"}


NSH = 64


def shards(tier, seed):
    return [(tier, seed, i, NSH) for i in range(NSH)]


def bounds(tier, seed):
    return {"fixed": "all changepoint subsets x all (-2,0,2) series for n<=5 (quick)/6; every changepoint subset of three fixed series of length 13 (quick) / 15 (up to 13 / 15 segments in one output)", "stats": list(STATS), "bounds": [list(b) for b in BOUNDS],
            "real": "PELT, MovingWindow, SeededBinarySegmentation on all (0,4) series n in 4..8 (quick)/9", "index kinds for n=5": ["offset", "datetime", "period", "step2"]}


def run_shard(shard):
    tier, seed, i, k = shard
    acc = core.Acc()
    for j, case in enumerate(cases(tier, seed)):
        if j % k == i:
            check_case(acc, case)
    return acc


def replay(case):
    acc = core.Acc()
    check_case(acc, case)
    return acc.violations
