"""C01 -- cost values equal their definition on every admissible interval (Mode A).

Every matrix over small value alphabets x 12 cost variants x every admissible interval,
evaluated alone, in full batches in both orders, in every ordered pair, and alone again;
reference in exact rational arithmetic directly from the rows X[s:e].
"""

from __future__ import annotations

import itertools

import numpy as np

from smc import core, costref, util, variants

ID = "C01"
LEVEL = "exploration"
RULE = (
    "one case = (data matrix over the alphabet, cost variant); for it EVERY admissible interval is evaluated "
    "alone, all intervals in one call in increasing and in decreasing order, every ordered pair of intervals "
    "in one call (n<=4; adjacent pairs for larger n), and alone again afterwards; all results are compared "
    "with the exact reference and with each other. Non-trivial = the matrix is not constant in every column "
    "(some interval has non-zero spread)."
)
ASSUMPTIONS = [
    "numba not installed: kernels run as plain Python/NumPy",
    "values are small integers / dyadic rationals, so prefix sums are exact in binary64; tolerance 1e-9 relative",
    "exactly singular covariance with no constant column: either the documented RuntimeError or any value is accepted (rounding decides slogdet's sign)",
    "batch independence is compared with tolerance 1e-12 (SIMD remainder loops may differ in the last ulp)",
]

TOL = 1e-9


def alphabets(seed):
    a, b = util.seed_affine(seed)
    return {
        "S4": (-1, 0, 2, 3),
        "S3": (0, 1, 3),
        "S2": (0, 4),
        "S3s": tuple(a + b * x for x in (0, 1, 3)),
        # values that are NOT exactly representable in binary: the variance of a constant stretch comes out of the prefix
        # sums as +-1e-18 instead of an exact 0 (still far below the 1e-16 floor, which must be applied to it); univariate
        # costs only -- for the covariance cost rounding alone decides whether such a slice counts as singular
        "ND": (0.1, 0.07, -0.05),
    }


def spaces(tier, seed):
    """(alphabet name, n, p)"""
    q = tier == "quick"
    out = []
    for n in range(1, (5 if q else 7) + 1):
        out.append(("S4", n, 1))
    for n in range(1, (6 if q else 8) + 1):
        out.append(("S3s", n, 1))
    for n in range(1, (6 if q else 8) + 1):
        out.append(("ND", n, 1))
    for n in range(1, (3 if q else 4) + 1):
        out.append(("S3", n, 2))
    for n in range(1, (4 if q else 5) + 1):
        out.append(("S2", n, 2))
    for n in range(1, (4 if q else 5) + 1):
        out.append(("S2", n, 3))
    if not q:
        out.append(("S3s", 3, 2))
    return out


def expected(ref_out, width):
    return ref_out


def check_matrix(acc, X, alph_name):
    n, p = len(X), len(X[0])
    Xf = np.array(X, dtype=float)
    rows = costref.frac_rows(X)
    nontriv = any(len({r[j] for r in X}) > 1 for j in range(p))
    for V in variants.variants(p):
        if alph_name == "ND" and V.family == "Cov":
            continue
        acc.ev()
        case = {"x": [list(r) for r in X], "variant": V.name}
        key = {"variant": V.name}
        try:
            with core.case_timer():
                ok = one_variant(acc, case, key, V, Xf, rows, n, p)
        except core.CaseTimeout:
            acc.violation("timeout", case, "evaluate did not return", key)
            continue
        except Exception as e:  # wrong output shape, unexpected exception type, ...
            acc.violation("cost-shape-or-exception", case, f"{V.name} on a {n}x{p} matrix: {type(e).__name__}: {e}", dict(key, exc=type(e).__name__))
            continue
        if nontriv:
            acc.nt()
    acc.sample({"x": [list(r) for r in X]}, limit=2)


def one_variant(acc, case, key, V, Xf, rows, n, p):
    ms = V.min_size
    ivs = [(s, e) for s in range(n) for e in range(s + ms, n + 1)]
    try:
        cost = V.make().fit(Xf)
    except Exception as e:
        acc.violation("cost-fit-raised", case, f"{type(e).__name__}: {e}", key)
        return False
    if cost.min_size != ms:
        acc.violation("cost-min-size", case, f"min_size {cost.min_size} != {ms}", key)
        return False
    if not ivs:
        acc.outcome("no-admissible-interval")
        return True
    w = V.width(p)
    ref = {iv: V.ref(rows[iv[0]:iv[1]]) for iv in ivs}

    def ev(batch):
        """Evaluate a batch; returns per-row list: ('value', row) | ('raised', exc name)."""
        try:
            out = cost.evaluate(np.array(batch, dtype=np.int64))
        except RuntimeError as e:
            return [("raised", "RuntimeError")] * len(batch), True
        if out.shape != (len(batch), w):
            raise AssertionError(f"shape {out.shape} != {(len(batch), w)}")
        return [("value", out[i].copy()) for i in range(len(batch))], False

    def judge_row(iv, got, where):
        r = ref[iv]
        for j, (st, v) in enumerate(r):
            if st == "value":
                if got[0] != "value":
                    acc.violation("cost-unexpected-error", dict(case, interval=list(iv), call=where),
                                  f"{V.name} on [{iv[0]},{iv[1]}) raised {got[1]} but the slice has a positive definite covariance / defined cost {v!r}", key)
                    return False
                if not util.close(got[1][j], v, TOL):
                    acc.violation("cost-value", dict(case, interval=list(iv), call=where),
                                  f"{V.name} on [{iv[0]},{iv[1]}) column {j}: got {got[1][j]!r}, definition gives {v!r}", key,
                                  expected=v, observed=got[1][j])
                    return False
            elif st == "must-raise":
                if got[0] != "raised":
                    acc.violation("cost-missing-error", dict(case, interval=list(iv), call=where),
                                  f"{V.name} on [{iv[0]},{iv[1]}): covariance has a constant column (not positive definite) but evaluate returned {got[1]!r}", key)
                    return False
            else:
                acc.count("ill_conditioned_not_compared")
        return True

    # (i) alone
    alone = {}
    for iv in ivs:
        r, _ = ev([iv])
        alone[iv] = r[0]
        if not judge_row(iv, r[0], "alone"):
            return False
        acc.count("interval_evaluations")
    clean = [iv for iv in ivs if alone[iv][0] == "value"]
    acc.outcome("some-interval-raises" if len(clean) < len(ivs) else "all-values")

    def same(a, b):
        return a[0] == b[0] and (a[0] != "value" or all(util.close(x, y, 1e-12) for x, y in zip(a[1], b[1])))

    def batch_check(batch, where):
        r, raised = ev(batch)
        if raised:
            # a batch containing a non-PD slice raises as a whole: documented error, fine
            if all(alone[iv][0] == "value" for iv in batch):
                acc.violation("cost-batch-error", dict(case, batch=[list(b) for b in batch]),
                              f"{V.name}: batch {where} raised although every interval evaluates alone", key)
                return False
            return True
        for iv, got in zip(batch, r):
            if alone[iv][0] == "value" and not same(got, alone[iv]):
                acc.violation("cost-batch-dependence", dict(case, batch=[list(b) for b in batch], interval=list(iv)),
                              f"{V.name}: [{iv[0]},{iv[1]}) gives {got[1]!r} in batch ({where}) but {alone[iv][1]!r} alone", key)
                return False
            if alone[iv][0] != "value":
                acc.violation("cost-batch-swallowed-error", dict(case, batch=[list(b) for b in batch]),
                              f"{V.name}: [{iv[0]},{iv[1]}) raises alone but returned a value in a batch", key)
                return False
        acc.count("batch_evaluations")
        return True

    # (ii)/(iii) full batches both orders (over intervals that evaluate alone, and over all)
    for batch, where in ((clean, "all increasing"), (clean[::-1], "all decreasing"), (ivs, "all incl. non-PD")):
        if batch and not batch_check(batch, where):
            return False
    # (iii') sandwich batches [a, everything, a]: first and last row equal, different rows in between
    for a in {clean[0], clean[len(clean) // 2], clean[-1]} if clean else ():
        if not batch_check([a] + clean + [a], "sandwich"):
            return False
    # (iv) ordered pairs
    pairs = itertools.permutations(clean, 2) if n <= 4 else zip(clean, clean[1:] + clean[:1])
    for a, b in pairs:
        if not batch_check([a, b], "pair"):
            return False
    # (iv') a held result must not change when the scorer is evaluated again (no view of a reused internal buffer)
    if len(clean) >= 2:
        for a, b in ((clean, clean[::-1]), (clean[:1], clean[-1:]), (clean, clean[-1:])):
            if [tuple(x) for x in a] == [tuple(x) for x in b]:
                continue
            ok, before, after = util.result_survives(cost, a, b)
            if not ok:
                acc.violation("cost-result-overwritten", dict(case, first=[list(x) for x in a], then=[list(x) for x in b]),
                              f"{V.name}: the array returned by evaluate({[list(x) for x in a][:3]}...) changed from {before.tolist()[:3]} to "
                              f"{after.tolist()[:3]} after a later evaluate call on the same scorer", key)
                return False
    # (v) alone again after everything
    for iv in clean:
        r, _ = ev([iv])
        if not same(r[0], alone[iv]):
            acc.violation("cost-history-dependence", dict(case, interval=list(iv)),
                          f"{V.name}: [{iv[0]},{iv[1]}) gives {r[0][1]!r} after other evaluations but {alone[iv][1]!r} before", key)
            return False
    return True


def big_series(n, p):
    t = np.arange(n, dtype=float)
    cols = [((t * (7 + 2 * j) + 3) % 11) - 5.0 + 4.0 * ((t // (37 + 11 * j)) % 2) + 0.25 * ((t * t + j) % 3) for j in range(p)]
    return np.column_stack(cols)


def check_big_batch(acc, vname, n, p):
    """Batch independence at scale: ALL admissible intervals of a length-n series in ONE call (up to ~180 000 rows) must
    agree with the same intervals evaluated in chunks of 997 rows and in chunks of 4099 rows taken in reverse order (an
    implementation that processes cuts block-wise must not depend on where the blocks fall), and every 89th row must
    agree with the exact rational reference."""
    V = [v for v in variants.variants(p) if v.name == vname][0]
    X = big_series(n, p)
    rows = costref.frac_rows([tuple(map(float, r)) for r in X.tolist()])
    acc.ev()
    case = {"big_batch": True, "variant": vname, "n": n, "p": p}
    key = {"variant": vname, "big_batch": True}
    try:
        with core.case_timer(900):
            cost = V.make().fit(X)
            ms = V.min_size
            ivs = np.array([(s, e) for s in range(n) for e in range(s + ms, n + 1)], dtype=np.int64)
            whole = cost.evaluate(ivs)
            if whole.shape != (len(ivs), V.width(p)):
                acc.violation("cost-shape-or-exception", case, f"shape {whole.shape} != {(len(ivs), V.width(p))}", key)
                return
            for chunk, rev in ((997, False), (4099, True)):
                parts = []
                idx = list(range(0, len(ivs), chunk))
                for lo in (idx[::-1] if rev else idx):
                    sub = ivs[lo:lo + chunk]
                    out = cost.evaluate(sub[::-1] if rev else sub)
                    parts.append((lo, out[::-1] if rev else out))
                parts.sort(key=lambda t: t[0])
                again = np.vstack([o for _, o in parts])
                bad = np.flatnonzero(~np.all(np.isclose(again, whole, rtol=1e-12, atol=1e-12), axis=1))
                if len(bad):
                    i = int(bad[0])
                    acc.violation("cost-batch-dependence", dict(case, interval=ivs[i].tolist(), chunk=chunk),
                                  f"{vname}: interval {ivs[i].tolist()} gives {whole[i]!r} in one call of {len(ivs)} rows but {again[i]!r} in chunks of {chunk}", key)
                    return
            for i in range(0, len(ivs), 89):
                s_, e_ = map(int, ivs[i])
                for j, (st, v) in enumerate(V.ref(rows[s_:e_])):
                    if st == "value" and not util.close(whole[i][j], v, 1e-8):
                        acc.violation("cost-value", dict(case, interval=[s_, e_]), f"{vname} on [{s_},{e_}) column {j}: got {whole[i][j]!r}, definition gives {v!r}", key,
                                      expected=v, observed=float(whole[i][j]))
                        return
            acc.count("big_batch_rows", len(ivs))
            acc.nt()
    except core.CaseTimeout:
        acc.violation("timeout", case, "evaluate did not return", key)
    except RuntimeError:
        acc.count("big_batch_nonpd_skipped")
    except Exception as e:
        acc.violation("cost-shape-or-exception", case, f"{vname} big batch: {type(e).__name__}: {e}", dict(key, exc=type(e).__name__))


def big_configs(tier):
    q = tier == "quick"
    out = []
    for vname in ("L2/opt", "L2/percol", "GV/opt", "GV/percol"):
        out.append((vname, 300 if q else 600, 2))
    for vname in ("Cov/opt", "Cov/spd"):
        out.append((vname, 60 if q else 120, 2))
    return out


def shards(tier, seed):
    sh = [("big",) + c for c in big_configs(tier)]
    for (an, n, p) in spaces(tier, seed):
        total = len(alphabets(seed)[an]) ** (n * p)
        step = 256 if n * p >= 6 else 4096
        for lo in range(0, total, step):
            sh.append((an, n, p, seed, lo, min(total, lo + step)))
    sh[len(big_configs(tier)):] = sorted(sh[len(big_configs(tier)):], key=lambda s: -(s[5] - s[4]) * s[1] ** 2)
    return sh


def bounds(tier, seed):
    return {"spaces(alphabet,n,p)": [list(s) for s in spaces(tier, seed)],
            "alphabets": {k: list(v) for k, v in alphabets(seed).items()},
            "variants": [v.name for v in variants.variants(2)],
            "big_batch(variant,n,p)": [list(c) for c in big_configs(tier)]}


def run_shard(shard):
    if shard[0] == "big":
        acc = core.Acc()
        check_big_batch(acc, shard[1], shard[2], shard[3])
        return acc
    an, n, p, seed, lo, hi = shard
    acc = core.Acc()
    alph = alphabets(seed)[an]
    for X in itertools.islice(util.matrices(alph, n, p), lo, hi):
        check_matrix(acc, X, an)
    return acc


def replay(case):
    acc = core.Acc()
    if case.get("big_batch"):
        check_big_batch(acc, case["variant"], case["n"], case["p"])
        return acc.violations
    X = tuple(tuple(r) for r in case["x"])
    n, p = len(X), len(X[0])
    Xf = np.array(X, dtype=float)
    rows = costref.frac_rows(X)
    for V in variants.variants(p):
        if V.name == case["variant"]:
            one_variant(acc, {"x": case["x"], "variant": V.name}, {"variant": V.name}, V, Xf, rows, n, p)
    return acc.violations
