"""C06 -- scores derived from costs equal their defining cost differences (Mode A + B).

For every matrix of the C01 spaces and every cost variant: every admissible 3-point and
4-point cut through ChangeScore / Saving / LocalAnomalyScore, compared with the defining
identities whose right-hand sides come from the cost's own evaluate (and, for the pooled
surroundings, from a fresh instance fitted on the explicitly concatenated rows and from
the exact rational reference); CUSUM^2 vs the L2 change score; L2Saving vs
Saving(L2Cost(0)); the inequalities of the statement; user-defined and table costs.
"""

from __future__ import annotations

import itertools

import numpy as np

from smc import core, costref, util, variants
from smc.envs import RowFuncCost, TableCost

ID = "C06"
LEVEL = "exploration"
RULE = (
    "one case = (data matrix over the alphabet, cost variant or user cost); for it EVERY admissible 3-point cut "
    "(s<k<e) and 4-point cut (s<a<b<e) is scored by every applicable adapter, in one batch in increasing and in "
    "decreasing order, in sandwich batches [a, all cuts, a] and in single-row calls, and compared with the defining identity. Table family: every cost table over {0,1,2} on "
    "n=3 (quick) / n<=4 (thorough). Non-trivial = the matrix is not constant in every column."
)
ASSUMPTIONS = [
    "numba not installed: kernels run as plain Python/NumPy",
    "right-hand sides use the cost's own evaluate on the component intervals (cost correctness is C01); pooled surroundings additionally checked against the exact rational reference",
    "cuts containing a part with non-positive-definite covariance are skipped and counted (the cost raises the documented error there)",
    "tolerance 1e-9 relative to the magnitude of the costs involved",
]


def ctol(*vals):
    return 1e-9 * max(1.0, *[abs(float(v)) for v in vals])


def user_variants(p):
    from smc.variants import Variant

    return [
        Variant("User/opt", lambda: RowFuncCost(weight=2.5), None, 1, optimal=True, family="User"),
        Variant("User/fixed", lambda: RowFuncCost(param=1.0, weight=2.5), None, 1, family="User"),
    ]


def survives(acc, case, key, scorer, cuts, what):
    """Held results must survive later evaluate calls (see util.result_survives)."""
    cuts = [tuple(c) for c in cuts]
    if len(cuts) < 2 or len(set(cuts)) < 2:
        return True
    for a, b in ((cuts, cuts[::-1]), (cuts[:1], cuts[-1:]), (cuts, cuts[-1:])):
        if a == b:
            continue
        ok, before, after = util.result_survives(scorer, a, b)
        if not ok:
            acc.violation("result-overwritten", dict(case, scorer=what, first=[list(x) for x in a][:4], then=[list(x) for x in b][:4]),
                          f"{what}: the array returned by one evaluate call changed from {before.tolist()[:3]} to {after.tolist()[:3]} "
                          f"after a later evaluate call on the same scorer", key)
            return False
    return True


def after_error(acc, case, key, scorer, bad, good, before, what):
    """Exception safety: an evaluate call that raises the documented error (a cut whose slice / pooled surroundings have
    no positive definite covariance) must leave the scorer as it was -- the good cuts evaluate to the same values after."""
    if not bad or not good:
        return True
    for b in (bad[0], bad[-1]):
        try:
            scorer.evaluate(np.array([good[0], b, good[-1]]))
            acc.count("nonpd_cut_did_not_raise_in_batch")
        except RuntimeError:
            acc.count("documented_errors_provoked")
        except Exception as e:
            acc.violation("score-raised", dict(case, scorer=what, cut=list(b)), f"{what}: {type(e).__name__}: {e} on a cut with a non-positive-definite part", dict(key, exc=type(e).__name__))
            return False
        try:
            again = scorer.evaluate(np.array(good))
        except Exception as e:
            acc.violation("state-changed-by-failed-call", dict(case, scorer=what, failed_cut=list(b)),
                          f"{what}: after an evaluate call that raised on cut {list(b)}, evaluating valid cuts raises {type(e).__name__}: {e}", key)
            return False
        if again.shape != before.shape or not np.allclose(again, before, rtol=1e-12, atol=1e-12):
            acc.violation("state-changed-by-failed-call", dict(case, scorer=what, failed_cut=list(b)),
                          f"{what}: after an evaluate call that raised on cut {list(b)}, valid cuts evaluate differently", key)
            return False
    return True


def cuts3(n, ms):
    return [(s, k, e) for s in range(n) for k in range(s + ms, n) for e in range(k + ms, n + 1)]


def cuts4(n, ms):
    out = []
    for s in range(n):
        for a in range(s + 1, n):
            for b in range(a + ms, n):
                for e in range(b + 1, n + 1):
                    if (a - s) + (e - b) >= ms:
                        out.append((s, a, b, e))
    return out


def cost_table(cost, n, ms, w):
    """Cost's own values on every admissible interval; None where it raises (non-PD)."""
    ivs = [(s, e) for s in range(n) for e in range(s + ms, n + 1)]
    tab = {}
    if not ivs:
        return tab
    try:
        out = cost.evaluate(np.array(ivs))
        for iv, r in zip(ivs, out):
            tab[iv] = r.copy()
    except RuntimeError:
        for iv in ivs:
            try:
                tab[iv] = cost.evaluate(np.array([iv]))[0].copy()
            except RuntimeError:
                tab[iv] = None
    return tab


def check_matrix(acc, X, only_mv=False):
    """only_mv: the multivariate (one output column) cost variants only -- used for the longer 2- and 3-column
    spaces that exist because those costs need p+1 rows per part (change scores and local scores of a multivariate
    cost are defined only from n = 2(p+1))."""
    from skchange.anomaly_scores import L2Saving, LocalAnomalyScore, Saving
    from skchange.change_scores import CUSUM, ChangeScore
    from skchange.costs import L2Cost

    n, p = len(X), len(X[0])
    Xf = np.array(X, dtype=float)
    rows = costref.frac_rows(X)
    nontriv = any(len({r[j] for r in X}) > 1 for j in range(p))
    allv = variants.variants(p) + user_variants(p)
    if only_mv:
        allv = [V for V in allv if V.multivariate]
    opt_tab = {}
    for V in allv:
        acc.ev()
        case = {"x": [list(r) for r in X], "variant": V.name}
        key = {"variant": V.name}
        try:
            with core.case_timer():
                tab = one_variant(acc, case, key, V, Xf, rows, n, p)
                if V.optimal:
                    opt_tab[V.family] = tab
                elif tab is not None and opt_tab.get(V.family) is not None:
                    # optimal-parameter cost never exceeds the cost at any fixed parameter
                    for iv, v in tab.items():
                        o = opt_tab[V.family].get(iv)
                        if v is None or o is None:
                            continue
                        if np.any(o > v + ctol(*o, *v)):
                            acc.violation("optimal-exceeds-fixed", dict(case, interval=list(iv)),
                                          f"{V.family}: optimal cost {o!r} > cost at fixed parameter {v!r} ({V.name}) on {iv}", key)
                            break
        except core.CaseTimeout:
            acc.violation("timeout", case, "evaluate did not return", key)
        except Exception as e:
            acc.violation("score-raised", case, f"{type(e).__name__}: {e}", dict(key, exc=type(e).__name__))
        if nontriv:
            acc.nt()
        acc.outcome(V.name)
    if only_mv:
        return
    # directly implemented scores
    acc.ev()
    case = {"x": [list(r) for r in X], "variant": "direct"}
    key = {"variant": "direct"}
    try:
        c3 = cuts3(n, 1)
        if c3:
            cu = CUSUM().fit(Xf).evaluate(np.array(c3))
            l2 = ChangeScore(L2Cost()).fit(Xf).evaluate(np.array(c3))
            for i, c in enumerate(c3):
                if np.any(np.abs(cu[i] ** 2 - l2[i]) > ctol(*l2[i], *(Xf[c[0]:c[2]] ** 2).sum(axis=0))):
                    acc.violation("cusum-vs-l2", dict(case, cut=list(c)), f"CUSUM^2 {cu[i]**2!r} != L2 change score {l2[i]!r} on {c}", key)
                    break
            acc.count("cuts3", len(c3))
            survives(acc, case, key, CUSUM().fit(Xf), c3, "CUSUM")
        ivs = [(s, e) for s in range(n) for e in range(s + 1, n + 1)]
        survives(acc, case, key, L2Saving().fit(Xf), ivs, "L2Saving")
        a = L2Saving().fit(Xf).evaluate(np.array(ivs))
        b = Saving(L2Cost(param=0.0)).fit(Xf).evaluate(np.array(ivs))
        for i, iv in enumerate(ivs):
            if np.any(np.abs(a[i] - b[i]) > ctol(*(Xf[iv[0]:iv[1]] ** 2).sum(axis=0))):
                acc.violation("l2saving-vs-saving", dict(case, interval=list(iv)), f"L2Saving {a[i]!r} != Saving(L2Cost(0)) {b[i]!r} on {iv}", key)
                break
            want = [float(sum(r[j] for r in rows[iv[0]:iv[1]]) ** 2 / (iv[1] - iv[0])) for j in range(p)]
            if np.any(np.abs(a[i] - want) > ctol(*want)):
                acc.violation("l2saving-value", dict(case, interval=list(iv)), f"L2Saving {a[i]!r} != (sum)^2/n = {want!r} on {iv}", key)
                break
    except Exception as e:
        acc.violation("score-raised", case, f"{type(e).__name__}: {e}", dict(key, exc=type(e).__name__))
    acc.sample({"x": [list(r) for r in X]}, limit=2)


def one_variant(acc, case, key, V, Xf, rows, n, p):
    from skchange.anomaly_scores import LocalAnomalyScore, Saving
    from skchange.change_scores import ChangeScore

    ms = V.min_size
    w = V.width(p)
    cost = V.make().fit(Xf)
    tab = cost_table(cost, n, ms, w)
    scale = lambda *a: ctol(*[x for v in a for x in v])  # noqa: E731

    # ---- change score ---------------------------------------------------------------
    c3 = [c for c in cuts3(n, ms) if all(tab.get(iv) is not None for iv in ((c[0], c[1]), (c[1], c[2]), (c[0], c[2])))]
    acc.count("cuts3_skipped_nonpd", len(cuts3(n, ms)) - len(c3))
    if c3:
        cs = ChangeScore(V.make()).fit(Xf)
        if cs.min_size != ms:
            acc.violation("adapter-min-size", case, f"ChangeScore.min_size {cs.min_size} != cost min_size {ms}", key)
        out = cs.evaluate(np.array(c3))
        out_r = cs.evaluate(np.array(c3[::-1]))[::-1]
        if out.shape != (len(c3), w):
            acc.violation("score-shape", case, f"ChangeScore output shape {out.shape} != {(len(c3), w)}", key)
            return tab
        # sandwich batches [a, all cuts, a] (first and last row equal, other rows in between) and single-row calls
        sand = []
        for a in {c3[0], c3[len(c3) // 2], c3[-1]}:
            sand.append(cs.evaluate(np.array([a] + c3 + [a]))[1:-1])
        single = np.array([cs.evaluate(np.array([c]))[0] for c in c3[:: max(1, len(c3) // 6)]])
        for i, (s, k, e) in enumerate(c3):
            full, left, right = tab[(s, e)], tab[(s, k)], tab[(k, e)]
            want = full - left - right
            tol = scale(full, left, right)
            if any(np.any(np.abs(sb[i] - want) > tol) for sb in sand) or (
                    i % max(1, len(c3) // 6) == 0 and np.any(np.abs(single[i // max(1, len(c3) // 6)] - want) > tol)):
                acc.violation("change-score-batch-dependence", dict(case, cut=[s, k, e]),
                              f"ChangeScore({V.name}) on {(s, k, e)}: value depends on the other rows of the batch (sandwich / single-row call) -- expected {want!r}", key)
                return tab
            if np.any(np.abs(out[i] - want) > tol) or np.any(np.abs(out_r[i] - want) > tol):
                acc.violation("change-score-identity", dict(case, cut=[s, k, e]),
                              f"ChangeScore({V.name}) on {(s, k, e)} = {out[i]!r}, C(s,e)-C(s,k)-C(k,e) = {want!r}", key)
                return tab
            if V.optimal and np.any(out[i] < -tol):
                acc.violation("change-score-negative", dict(case, cut=[s, k, e]),
                              f"optimal-parameter change score {out[i]!r} < 0 on {(s, k, e)} (splitting increased the cost)", key)
                return tab
        acc.count("cuts3", len(c3))
        if not survives(acc, case, key, cs, c3, f"ChangeScore({V.name})"):
            return tab
        if not after_error(acc, case, key, cs, [c for c in cuts3(n, ms) if c not in set(c3)], c3, out, f"ChangeScore({V.name})"):
            return tab
    # ---- saving ---------------------------------------------------------------------
    if not V.optimal:
        sv = Saving(V.make()).fit(Xf)
        if sv.min_size != ms:
            acc.violation("adapter-min-size", case, f"Saving.min_size {sv.min_size} != cost min_size {ms}", key)
        # optimal-parameter reference built by a constructor with the SAME remaining hyper-parameters
        optc = (RowFuncCost(weight=2.5) if V.family == "User" else type(cost)()).fit(Xf)
        otab = cost_table(optc, n, ms, w)
        ivs = [iv for iv in tab if tab[iv] is not None and otab.get(iv) is not None]
        if ivs:
            out = sv.evaluate(np.array(ivs))
            if out.shape != (len(ivs), w):
                acc.violation("score-shape", case, f"Saving output shape {out.shape} != {(len(ivs), w)}", key)
                return tab
            sand = sv.evaluate(np.array([ivs[-1]] + ivs + [ivs[-1]]))[1:-1]
            for i, iv in enumerate(ivs):
                want = tab[iv] - otab[iv]
                tol = scale(tab[iv], otab[iv])
                if np.any(np.abs(out[i] - want) > tol) or np.any(np.abs(sand[i] - want) > tol):
                    acc.violation("saving-identity", dict(case, interval=list(iv)),
                                  f"Saving({V.name}) on {iv} = {out[i]!r}, C_fixed - C_optimal = {want!r}", key)
                    return tab
                if np.any(out[i] < -tol):
                    acc.violation("saving-negative", dict(case, interval=list(iv)), f"saving {out[i]!r} < 0 on {iv}", key)
                    return tab
            acc.count("savings", len(ivs))
            if not survives(acc, case, key, sv, ivs, f"Saving({V.name})"):
                return tab
    # ---- local anomaly score ----------------------------------------------------------
    c4 = cuts4(n, ms)
    if c4:
        ls = LocalAnomalyScore(V.make()).fit(Xf)
        if ls.min_size != ms:
            acc.violation("adapter-min-size", case, f"LocalAnomalyScore.min_size {ls.min_size} != cost min_size {ms}", key)
        good, wants = [], []
        for (s, a, b, e) in c4:
            if tab.get((s, e)) is None or tab.get((a, b)) is None:
                continue
            pooled = np.concatenate((Xf[s:a], Xf[b:e]))
            try:
                pc = V.make().fit(pooled).evaluate(np.array([[0, len(pooled)]]))[0]
            except RuntimeError:
                continue
            if V.ref is not None:
                r = V.ref(rows[s:a] + rows[b:e])
                for j, (st, v) in enumerate(r):
                    if st == "value" and abs(pc[j] - v) > ctol(v):
                        acc.violation("pooled-cost-reference", dict(case, cut=[s, a, b, e]),
                                      f"{V.name} fitted on pooled rows gives {pc[j]!r}, exact {v!r}", key)
                        return tab
            good.append((s, a, b, e))
            wants.append((tab[(s, e)] - tab[(a, b)] - pc, scale(tab[(s, e)], tab[(a, b)], pc)))
        acc.count("cuts4_skipped_nonpd", len(c4) - len(good))
        if good:
            out = ls.evaluate(np.array(good))
            out_r = ls.evaluate(np.array(good[::-1]))[::-1]
            if out.shape != (len(good), w):
                acc.violation("score-shape", case, f"LocalAnomalyScore output shape {out.shape} != {(len(good), w)}", key)
                return tab
            sand = [ls.evaluate(np.array([a] + good + [a]))[1:-1] for a in {good[0], good[-1]}]
            for i, c in enumerate(good):
                want, tol = wants[i]
                if any(np.any(np.abs(sb[i] - want) > tol) for sb in sand):
                    acc.violation("local-score-batch-dependence", dict(case, cut=list(c)),
                                  f"LocalAnomalyScore({V.name}) on {c}: value depends on the other rows of the batch; expected {want!r}", key)
                    return tab
                if np.any(np.abs(out[i] - want) > tol) or np.any(np.abs(out_r[i] - want) > tol):
                    acc.violation("local-score-identity", dict(case, cut=list(c)),
                                  f"LocalAnomalyScore({V.name}) on {c} = {out[i]!r} (reverse batch {out_r[i]!r}), C(s,e)-C(a,b)-C(pooled) = {want!r}", key)
                    return tab
            acc.count("cuts4", len(good))
            if not survives(acc, case, key, ls, good, f"LocalAnomalyScore({V.name})"):
                return tab
            if not after_error(acc, case, key, ls, [c for c in c4 if c not in set(good)], good, out, f"LocalAnomalyScore({V.name})"):
                return tab
    return tab


def check_table(acc, n, vals):
    """ChangeScore / Saving / LocalAnomalyScore over a user TableCost with values in {0,1,2}."""
    from skchange.anomaly_scores import LocalAnomalyScore, Saving
    from skchange.change_scores import ChangeScore

    acc.ev()
    ivs = [(s, e) for s in range(n) for e in range(s + 1, n + 1)]
    T = np.zeros((n + 1, n + 1, 1))
    F = np.zeros((n + 1, n + 1, 1))
    for (s, e), v in zip(ivs, vals):
        T[s, e, 0] = v
        F[s, e, 0] = v + ((s + 2 * e) % 3)
    case = {"table": list(vals), "n": n, "variant": "Table"}
    key = {"variant": "Table"}
    X = np.zeros((n, 1))
    try:
        c3 = cuts3(n, 1)
        out = ChangeScore(TableCost(T)).fit(X).evaluate(np.array(c3))
        for i, (s, k, e) in enumerate(c3):
            want = T[s, e, 0] - T[s, k, 0] - T[k, e, 0]
            if out[i, 0] != want:
                acc.violation("change-score-identity", dict(case, cut=[s, k, e]), f"ChangeScore(TableCost) on {(s,k,e)} = {out[i,0]!r}, want {want!r}", key)
                return
        out = Saving(TableCost(T, param=1.0, ftable=F)).fit(X).evaluate(np.array(ivs))
        for i, (s, e) in enumerate(ivs):
            want = F[s, e, 0] - T[s, e, 0]
            if out[i, 0] != want:
                acc.violation("saving-identity", dict(case, interval=[s, e]), f"Saving(TableCost) on {(s,e)} = {out[i,0]!r}, want {want!r}", key)
                return
        c4 = cuts4(n, 1)
        if c4:
            out = LocalAnomalyScore(TableCost(T)).fit(X).evaluate(np.array(c4))
            for i, (s, a, b, e) in enumerate(c4):
                m = (a - s) + (e - b)
                want = T[s, e, 0] - T[a, b, 0] - T[0, m, 0]
                if out[i, 0] != want:
                    acc.violation("local-score-identity", dict(case, cut=[s, a, b, e]),
                                  f"LocalAnomalyScore(TableCost) on {(s,a,b,e)} = {out[i,0]!r}, want {want!r}", key)
                    return
        acc.nt()
    except Exception as e:
        acc.violation("score-raised", case, f"{type(e).__name__}: {e}", dict(key, exc=type(e).__name__))


def check_passthrough(acc):
    from skchange.anomaly_scores import L2Saving, LocalAnomalyScore, Saving, to_local_anomaly_score, to_saving
    from skchange.change_scores import CUSUM, ChangeScore, to_change_score
    from skchange.costs import GaussianVarCost, L2Cost

    acc.ev()
    case, key = {"variant": "passthrough"}, {"variant": "passthrough"}
    objs = {"cost": L2Cost(param=0.0), "cost2": GaussianVarCost(param=(0.0, 1.0)), "cs": CUSUM(), "cs2": ChangeScore(L2Cost()),
            "sav": L2Saving(), "sav2": Saving(L2Cost(param=0.0)), "las": LocalAnomalyScore(L2Cost())}
    table = {
        "to_change_score": (to_change_score, ChangeScore, ("cs", "cs2"), "cost"),
        "to_saving": (to_saving, Saving, ("sav", "sav2"), "baseline_cost"),
        "to_local_anomaly_score": (to_local_anomaly_score, LocalAnomalyScore, ("las",), "cost"),
    }
    for fname, (f, cls, same, attr) in table.items():
        for name, o in objs.items():
            try:
                r = f(o)
            except ValueError:
                r = "ValueError"
            if name in same:
                ok = r is o
            elif name.startswith("cost"):
                ok = isinstance(r, cls) and getattr(r, attr) is o
            else:
                ok = r == "ValueError"
            if not ok:
                acc.violation("passthrough", dict(case, func=fname, arg=name), f"{fname}({name}) -> {r!r}", key)
    acc.nt()


def spaces(tier, seed):
    from props import c01

    sp = c01.spaces(tier, seed)
    if tier == "quick":
        sp = [s for s in sp if not (s[0] == "S4" and s[1] > 5) and not (s[0] == "S3s" and s[1] > 5)]
    else:
        sp = [s for s in sp if not (s[0] == "S4" and s[1] > 6) and not (s[0] == "S3s" and s[1] > 7)]
    return sp


def mv_spaces(tier):
    """(alphabet, n, p): all 2-column matrices over S2; for p = 3 the matrices util.three_columns(xs) of all (0,3) series xs."""
    return [("S2", 6, 2), ("3col", 8, 3)] if tier == "quick" else [("S2", 6, 2), ("S2", 7, 2), ("3col", 8, 3), ("3col", 9, 3), ("3col", 10, 3)]


def mv_matrices(an, n, p, seed):
    from props import c01

    if p == 2:
        return util.matrices(c01.alphabets(seed)[an], n, p)
    return (tuple(tuple(r) for r in util.three_columns(xs)) for xs in itertools.product((0, 3), repeat=n))


def shards(tier, seed):
    from props import c01

    sh = []
    for (an, n, p) in spaces(tier, seed):
        total = len(c01.alphabets(seed)[an]) ** (n * p)
        step = 128 if n * p >= 5 else 1024
        for lo in range(0, total, step):
            sh.append(("data", an, n, p, seed, lo, min(total, lo + step)))
    for (an, n, p) in mv_spaces(tier):
        total = (len(c01.alphabets(seed)[an]) ** (n * p)) if p == 2 else 2 ** n
        for lo in range(0, total, 64):
            sh.append(("mv", an, n, p, seed, lo, min(total, lo + 64)))
    for n in ((3,) if tier == "quick" else (3, 4)):
        m = n * (n + 1) // 2
        total = 3 ** m
        for lo in range(0, total, 2000):
            sh.append(("table", n, lo, min(total, lo + 2000)))
    sh.append(("passthrough",))
    return sh


def bounds(tier, seed):
    from props import c01

    return {"spaces(alphabet,n,p)": [list(s) for s in spaces(tier, seed)],
            "multivariate_cost_spaces(alphabet,n,p)": [list(s) for s in mv_spaces(tier)],
            "alphabets": {k: list(v) for k, v in c01.alphabets(seed).items()},
            "variants": [v.name for v in variants.variants(2)] + ["User/opt", "User/fixed", "Table"],
            "table_family": "all tables over {0,1,2} on n=3 (quick) / n in (3,4) (thorough)"}


def run_shard(shard):
    from props import c01

    acc = core.Acc()
    if shard[0] == "data":
        _, an, n, p, seed, lo, hi = shard
        for X in itertools.islice(util.matrices(c01.alphabets(seed)[an], n, p), lo, hi):
            check_matrix(acc, X)
    elif shard[0] == "mv":
        _, an, n, p, seed, lo, hi = shard
        for X in itertools.islice(mv_matrices(an, n, p, seed), lo, hi):
            check_matrix(acc, X, only_mv=True)
    elif shard[0] == "table":
        _, n, lo, hi = shard
        m = n * (n + 1) // 2
        for vals in itertools.islice(itertools.product((0, 1, 2), repeat=m), lo, hi):
            check_table(acc, n, vals)
    else:
        check_passthrough(acc)
    return acc


def replay(case):
    acc = core.Acc()
    if case.get("variant") == "Table":
        check_table(acc, case["n"], case["table"])
    elif case.get("variant") == "passthrough":
        check_passthrough(acc)
    else:
        check_matrix(acc, tuple(tuple(r) for r in case["x"]))
        acc.violations = [v for v in acc.violations if v["case"].get("variant") == case.get("variant")]
    return acc.violations
