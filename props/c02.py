"""C02 -- PELT returns an exact minimiser of the penalised segmentation cost.

Mode B: every integer cost table that satisfies the split inequality by construction
(C(s,e) = max_k[C(s,k)+C(k,e)] + slack) over a slack alphabet, plugged into the real
PELT through a user-defined TableCost; Mode A: every series over a small alphabet with
the built-in costs.  Oracle: unpruned optimal-partitioning recursion per prefix
(cross-checked against subset brute force in the self-test); value-based, so any
minimiser is accepted.
"""

from __future__ import annotations

import itertools

import numpy as np
import pandas as pd

from smc import core, refmodels, util
from smc.envs import TableCost

ID = "C02"
LEVEL = "exploration"
RULE = (
    "Mode B: one case = (n, min_segment_length, penalty, p, variant, slack vector); all slack "
    "vectors over the slack alphabet are enumerated for each configuration (deviation-bounded "
    "families: all vectors with <= d non-zero slacks). Mode A: one case = (series, cost, msl, "
    "penalty scale). Non-trivial = the optimal segmentation has >= 1 changepoint AND the recording "
    "cost saw strictly fewer interval queries than an unpruned run (pruning fired)."
)
ASSUMPTIONS = [
    "numba not installed: kernels run as plain Python/NumPy",
    "table values are small integers; penalties made exactly representable via the public penalty_scale",
    "bounds: see coverage.bounds; nothing is claimed for n beyond them",
    "reference = unpruned Bellman recursion, cross-checked against subset brute force in ./check --selftest",
]

POISON = -1000.0


def intervals(n, msl):
    return [(s, s + L) for L in range(msl, n + 1) for s in range(0, n - L + 1)]


def build_table(n, msl, slacks):
    """C(s,e) = max over admissible splits of C(s,k)+C(k,e), plus slack (>= 0)."""
    C = [[None] * (n + 1) for _ in range(n + 1)]
    for (s, e), sl in zip(intervals(n, msl), slacks):
        base = 0
        for k in range(s + msl, e - msl + 1):
            v = C[s][k] + C[k][e]
            if v > base:
                base = v
        C[s][e] = base + sl
    return C


def to_array(C, n, fill):
    T = np.full((n + 1, n + 1), fill, dtype=float)
    for s in range(n + 1):
        for e in range(n + 1):
            if C[s][e] is not None:
                T[s, e] = C[s][e]
    return T


def unpruned_queries(n, msl):
    """Number of interval queries an unpruned PELT makes in its main loop."""
    q = 0
    for t in range(2 * msl - 1, n):
        q += 1 + (t - msl + 1 - msl + 1)  # start 0 plus starts msl..t-msl+1
    return q


def slack_vectors(m, alphabet, maxdev=None):
    if maxdev is None:
        yield from itertools.product(alphabet, repeat=m)
        return
    nz = [a for a in alphabet if a != 0]
    for d in range(0, maxdev + 1):
        for pos in itertools.combinations(range(m), d):
            for vals in itertools.product(nz, repeat=d):
                v = [0] * m
                for i, x in zip(pos, vals):
                    v[i] = x
                yield tuple(v)


def n_slack_vectors(m, alphabet, maxdev):
    import math

    if maxdev is None:
        return len(alphabet) ** m
    nz = len([a for a in alphabet if a != 0])
    return sum(math.comb(m, d) * nz**d for d in range(0, maxdev + 1))


# -------------------------------------------------------------------------------------


def run_pelt_table(n, msl, pen, p, variant, slacks, slacks2=None):
    """Run the real PELT on the table described by the arguments; returns observations."""
    from skchange.change_detectors import PELT

    C = build_table(n, msl, slacks)
    if variant == "neg":
        # NEGATIVE costs (as the Gaussian costs give on small-variance data): subtract 3 per sample; every segmentation's
        # total moves by the same -3n, so optima and the split inequality are unchanged
        C = [[None if v is None else v - 3 * (e - s_) for e, v in enumerate(row)] for s_, row in enumerate(C)]
    if variant == "poison":
        T = to_array(C, n, POISON)
        msize = 1
    else:
        T = to_array(C, n, np.nan)
        msize = msl
    if p == 1:
        tab = T.reshape(n + 1, n + 1, 1)
        Csum = C
    else:
        C2 = build_table(n, msl, slacks2)
        T2 = to_array(C2, n, POISON if variant == "poison" else np.nan)
        tab = np.stack([T, T2], axis=2)
        Csum = [
            [None if C[s][e] is None else C[s][e] + C2[s][e] for e in range(n + 1)]
            for s in range(n + 1)
        ]
    default = 2 * p * np.log(n)
    scale = util.exact_scale(float(pen), default)
    if scale is None:
        return None
    cost = TableCost(tab, msize)
    det = PELT(cost, penalty_scale=scale, min_segment_length=msl)
    X = pd.DataFrame(np.zeros((n, p)))
    det.fit(X)
    if det.penalty_ != pen:
        return None
    y = det.predict(X)
    core.emit("PELT", y, n=n, p=p, msl=msl)
    cpts = [int(c) for c in y["ilocs"]]
    scores = np.asarray(det.scores, dtype=float)
    nq = sum(len(c) for c in cost.log[1:])  # first call = direct prefix costs
    return Csum, cpts, scores, nq


def judge(acc, case, n, msl, pen, Csum, cpts, scores, nq, tol=util.TOL):
    F = refmodels.opt_partition(Csum, n, msl, pen)
    key = {"msl_ge_2": msl >= 2, "mode": case.get("mode")}
    bad = False
    if len(scores) != n:
        acc.violation("pelt-scores-shape", case, f"scores has length {len(scores)} != n={n}", key)
        return
    for L in range(msl, n + 1):
        if not util.close(scores[L - 1], F[L], tol):
            acc.violation(
                "pelt-prefix-optimum",
                case,
                f"score of prefix of length {L} is {scores[L-1]!r}, optimal penalised cost is {F[L]!r}",
                key,
                expected=F[msl:],
                observed=scores[msl - 1 :],
            )
            bad = True
            break
    b = [0] + cpts + [n]
    if any(b[i + 1] - b[i] < msl for i in range(len(b) - 1)) or sorted(set(cpts)) != cpts:
        acc.violation(
            "pelt-inadmissible-changepoints", case, f"changepoints {cpts} not admissible for msl={msl}, n={n}", key
        )
        bad = True
    else:
        v = refmodels.segmentation_cost(Csum, n, cpts, pen)
        if not util.close(v, scores[-1], tol):
            acc.violation(
                "pelt-final-score-vs-segmentation",
                case,
                f"returned segmentation {cpts} costs {v!r} but final score is {scores[-1]!r}",
                key,
            )
            bad = True
        if not util.close(v, F[n], tol) and not bad:
            acc.violation(
                "pelt-not-a-minimiser", case, f"returned segmentation {cpts} costs {v!r}, optimum {F[n]!r}", key
            )
            bad = True
    # non-triviality (measured): optimum has a changepoint and pruning fired
    optK = F[n] < Csum[0][n] - 1e-12
    if optK and nq is not None and nq < unpruned_queries(n, msl):
        acc.nt()
    acc.outcome(f"K={len(cpts)}")


# -------------------------------------------------------------------------------------
# shards


def table_configs(tier):
    """(n, msl, pen, p, variant, alphabet, maxdev)"""
    out = []
    tops = {1: 5, 2: 6, 3: 7}
    for msl, top in tops.items():
        for n in range(2 * msl, top + 1):
            for pen in (0, 1):
                out.append((n, msl, pen, 1, "min", (0, 1), None))
            if msl >= 2:
                out.append((n, msl, 1, 1, "poison", (0, 1), None))
            out.append((n, msl, 1, 2, "min", (0, 1), None))
    # deviation-bounded, larger n
    for msl in (1, 2, 3, 4):
        for n in range(max(2 * msl, 6), 9 + 1):
            out.append((n, msl, 1, 1, "min", (0, 1, 2), 2))
    # negative costs
    for msl in (1, 2, 3):
        for n in range(max(2 * msl, 5), (8 if tier == "quick" else 10) + 1):
            out.append((n, msl, 1, 1, "neg", (0, 1, 2), 2))
    # wide dynamic range: a slack of 4e6 next to slacks of 1 (no comparison may use a tolerance relative to the totals)
    for msl in (1, 2):
        for n in range(6, (8 if tier == "quick" else 10) + 1):
            out.append((n, msl, 1, 1, "min", (0, 1, 4000000), 2))
    if tier == "thorough":
        for msl, top in tops.items():
            n = top + 1
            for pen in (0, 1):
                out.append((n, msl, pen, 1, "min", (0, 1), None))
            for n2 in range(2 * msl, top):
                for pen in (0, 1, 2):
                    out.append((n2, msl, pen, 1, "min", (0, 1, 2), None))
            for n2 in range(2 * msl, top + 1):
                out.append((n2, msl, 2, 1, "min", (0, 1), None))
                out.append((n2, msl, 0, 2, "min", (0, 1), None))
                if msl >= 2:
                    out.append((n2, msl, 0, 1, "poison", (0, 1), None))
        for msl in (1, 2, 3, 4):
            for n in range(max(2 * msl, 6), 11):
                for pen in (0, 1, 2):
                    out.append((n, msl, pen, 1, "min", (0, 1, 2), 3))
                out.append((n, msl, 1, 1, "poison", (0, 1, 2), 2)) if msl >= 2 else None
                out.append((n, msl, 1, 2, "min", (0, 1, 2), 2))
    return out


def data_configs(tier, seed):
    """(alphabet, n, cost name, msl, scale)"""
    a, b = util.seed_affine(seed)
    base3 = (0, 1, 3)
    alts = [base3, tuple(a + b * x for x in base3)]
    top = 7 if tier == "quick" else 9
    out = []
    for alph in alts:
        for n in range(2, top + 1):
            for cost, msls in (("L2", (1, 2, 3)), ("GaussianVar", (2, 3))):
                for msl in msls:
                    if n < 2 * msl:
                        continue
                    for scale in (0.0, 0.05, 1.0):
                        out.append((alph, n, cost, msl, scale))
    return out


SHARD_SIZE = 4096


def shards(tier, seed):
    sh = []
    for cfg in table_configs(tier):
        n, msl, pen, p, variant, alphabet, maxdev = cfg
        m = len(intervals(n, msl))
        total = n_slack_vectors(m, alphabet, maxdev)
        for lo in range(0, total, SHARD_SIZE):
            sh.append(("table", cfg, lo, min(total, lo + SHARD_SIZE)))
    for cfg in data_configs(tier, seed):
        alph, n, cost, msl, scale = cfg
        total = len(alph) ** n
        for lo in range(0, total, 2187):
            sh.append(("data", cfg, lo, min(total, lo + 2187)))
    for n in range(2, (5 if tier == "quick" else 6) + 1):
        for cost, msl in (("L2", 1), ("L2", 2), ("GaussianVar", 2)):
            if n >= 2 * msl:
                sh.append(("data2", (n, cost, msl, 0.05), 0, 4 ** n))
    for n, cost, msl in ((6, "L2", 1), (7, "L2", 2), (7, "GaussianVar", 2)):
        sh.append(("data3", (n, cost, msl, 0.1), 0, 2 ** n))
    # multivariate cost (one output column whatever p is) on two generic columns
    for n in (6, 7, 8) if tier == "quick" else (6, 7, 8, 9, 10, 11):
        for scale in (0.05, 0.5):
            sh.append(("datacov", (n, "GaussianCov", 3, scale), 0, 2 ** n))
    # very long single cases (block boundaries of a chunked implementation fall inside the data)
    for n in (1200,) if tier == "quick" else (1200, 2400):
        for cost, msl, scale in (("L2", 5, 1.0), ("GaussianVar", 10, 2.0)):
            sh.append(("xlong", (n, cost, msl, scale), 0, 10 ** 9 + 1))
    # medium-length series: all placements of <= 2 (3) changes, larger min_segment_length
    for n in (12, 16, 20) if tier == "quick" else (12, 16, 20, 24, 32):
        for cost, msl, scale in (("L2", 1, 1.0), ("L2", 4, 0.5), ("L2", 5, 0.05), ("GaussianVar", 4, 0.5), ("GaussianVar", 6, 0.2)):
            if n >= 2 * msl:
                sh.append(("long", (n, cost, msl, scale), 0, 10 ** 9))
    # realistic lengths: ALL placements of <= 2 changes in series of length 72 (thorough: also 100, 136) -- beyond any
    # fixed-size buffer, block or batch of 64 (or 128) candidate starts; a low penalty makes the texture itself
    # segment-worthy, so the optimal last changepoint differs from prefix to prefix and a wrongly dropped start shows
    for n in (72,) if tier == "quick" else (72, 100, 136):
        tot = 2 * (1 + (n - 1) + (n - 1) * (n - 2) // 2)
        for cost, msl, scale in (("L2", 2, 0.05), ("L2", 2, 1.0), ("L2", 7, 0.3), ("GaussianVar", 3, 0.2)):
            for lo in range(0, tot, 400):
                sh.append(("long72", (n, cost, msl, scale, tier == "quick"), lo, min(tot, lo + 400)))
    # fitted on a shorter prefix, predicting the full series (penalty read back from the fitted detector)
    for n in (6, 7) if tier == "quick" else (6, 7, 8):
        for cost, msl, k in (("L2", 1, 2), ("L2", 2, 4), ("GaussianVar", 2, n - 1)):
            sh.append(("datafit", (n, cost, msl, 0.5, k), 0, 3 ** n))
    # big shards first for load balance
    sh.sort(key=lambda s: -(s[3] - s[2]))
    return sh


def bounds(tier, seed):
    return {
        "table_configs(n,msl,pen,p,variant,slack_alphabet,max_deviations)": [list(map(str, c)) for c in table_configs(tier)],
        "data_configs": sorted({str((c[0], c[1], c[2], c[3])) for c in data_configs(tier, seed)})[:60],
        "penalty_scales_data": [0.0, 0.05, 1.0],
        "medium_length": "piecewise-constant series with a deterministic texture, n in (12,16,20) quick / up to 32: all placements of <= 2 changes (and a third of the admissible 3-change placements for msl >= 4); msl in (1,4,5,6)",
        "realistic_length": "n = 72 (quick: all 0- and 1-change placements and a fixed quarter of the 2-change placements; thorough: all, also n = 100, 136), L2 msl 2 / 7 and GaussianVar msl 3, penalty scales 0.05 / 1.0 / 0.3 / 0.2",
        "multivariate_cost_data": "GaussianCovCost, msl 3, on two generic columns built from every (0,3) series n in (6,7,8) quick / (6..11), scales 0.05 and 0.5",
        "two_column_data": "all 2-column matrices over (0,3), n<=5 (quick)/6, L2 (msl 1,2) and GaussianVar (msl 2), scale 0.05",
    }


def partner(i, total):
    return (i * 7919 + 13) % total


def run_shard(shard):
    acc = core.Acc()
    kind, cfg, lo, hi = shard
    if kind == "table":
        n, msl, pen, p, variant, alphabet, maxdev = cfg
        m = len(intervals(n, msl))
        gen = slack_vectors(m, alphabet, maxdev)
        allv = None
        if p == 2:
            allv = list(slack_vectors(m, alphabet, maxdev))
            gen = iter(allv)
        for i, slacks in enumerate(itertools.islice(gen, lo, hi), start=lo):
            case = {"mode": "table", "n": n, "msl": msl, "pen": pen, "p": p, "variant": variant, "slacks": list(slacks)}
            s2 = None
            if p == 2:
                s2 = allv[partner(i, len(allv))]
                case["slacks2"] = list(s2)
            check_case(acc, case)
    elif kind == "long":
        n, cost, msl, scale = cfg
        for cps, xs in itertools.islice(util.structured_series(n, 2, (0.0, 3.0)), lo, hi):
            check_case(acc, {"mode": "data", "x": list(xs), "cost": cost, "msl": msl, "scale": scale})
        for cps, xs in util.structured_series(n, 3, (0.0, 3.0, -2.0)) if msl >= 4 else ():
            if len(cps) == 3 and all(b - a >= msl for a, b in zip((0,) + cps, cps + (n,))) and (cps[0] + cps[2]) % 3 == 0:
                check_case(acc, {"mode": "data", "x": list(xs), "cost": cost, "msl": msl, "scale": scale})
    elif kind == "long72":
        n, cost, msl, scale, quarter = cfg
        for cps, xs in itertools.islice(util.structured_series(n, 2, (0.0, 3.0)), lo, hi):
            if quarter and len(cps) == 2 and (cps[0] + cps[1]) % 4:
                continue  # quick: a fixed quarter of the two-change placements
            check_case(acc, {"mode": "data", "x": list(xs), "cost": cost, "msl": msl, "scale": scale})
    elif kind == "data3":
        n, cost, msl, scale = cfg
        for xs in itertools.islice(itertools.product((0, 3), repeat=n), lo, hi):
            check_case(acc, {"mode": "data", "x": util.three_columns(xs), "cost": cost, "msl": msl, "scale": scale})
    elif kind == "xlong":
        n, cost, msl, scale = cfg
        check_case(acc, {"mode": "data", "x": util.very_long_series(n), "cost": cost, "msl": msl, "scale": scale, "timeout": 600})
    elif kind == "datacov":
        n, cost, msl, scale = cfg
        for xs in itertools.islice(itertools.product((0, 3), repeat=n), lo, hi):
            check_case(acc, {"mode": "data", "x": util.two_generic_columns(xs), "cost": cost, "msl": msl, "scale": scale})
    elif kind == "datafit":
        n, cost, msl, scale, k = cfg
        for xs in itertools.islice(itertools.product((0, 1, 3), repeat=n), lo, hi):
            case = {"mode": "data", "x": list(xs), "cost": cost, "msl": msl, "scale": scale, "fit_rows": k}
            check_case(acc, case)
    elif kind == "data2":
        n, cost, msl, scale = cfg
        for flat in itertools.islice(itertools.product((0, 3), repeat=2 * n), lo, hi):
            case = {"mode": "data", "x": [list(flat[2 * i:2 * i + 2]) for i in range(n)], "cost": cost, "msl": msl, "scale": scale}
            check_case(acc, case)
    else:
        alph, n, cost, msl, scale = cfg
        for i, xs in enumerate(itertools.islice(itertools.product(alph, repeat=n), lo, hi)):
            case = {"mode": "data", "x": list(xs), "cost": cost, "msl": msl, "scale": scale}
            check_case(acc, case)
    return acc


def make_cost(name):
    from skchange.costs import GaussianVarCost, L2Cost

    from skchange.costs import GaussianCovCost

    return {"L2": L2Cost, "GaussianVar": GaussianVarCost, "GaussianCov": GaussianCovCost}[name]()


def check_case(acc, case):
    acc.ev()
    acc.sample(case)
    try:
        with core.case_timer(case.get("timeout", core.CASE_TIMEOUT_S)):
            if case["mode"] == "table":
                n, msl, pen, p = case["n"], case["msl"], case["pen"], case["p"]
                r = run_pelt_table(n, msl, pen, p, case["variant"], case["slacks"], case.get("slacks2"))
                if r is None:
                    acc.count("skipped_no_exact_penalty")
                    return
                Csum, cpts, scores, nq = r
                judge(acc, case, n, msl, pen, Csum, cpts, scores, nq)
            else:
                from skchange.change_detectors import PELT

                x = np.array(case["x"], dtype=float)
                x = x.reshape(len(x), -1)
                n, msl = len(x), case["msl"]
                X = pd.DataFrame(x)
                det = PELT(make_cost(case["cost"]), penalty_scale=case["scale"], min_segment_length=msl)
                det.fit(X if not case.get("fit_rows") else X.iloc[: case["fit_rows"]])
                pen = float(det.penalty_)
                try:
                    y = det.predict(X)
                except RuntimeError:
                    if case["cost"] != "GaussianCov":
                        raise
                    acc.count("cov_data_with_a_singular_window_skipped")
                    return
                cpts = [int(c) for c in y["ilocs"]]
                scores = np.asarray(det.scores, dtype=float)
                ref = make_cost(case["cost"]).fit(x)
                ms = max(msl, ref.min_size or 1)
                iv = np.array(intervals(n, ms))
                try:
                    vals = ref.evaluate(iv).sum(axis=1)
                except RuntimeError:
                    if case["cost"] != "GaussianCov":
                        raise
                    acc.count("cov_data_with_a_singular_window_skipped")
                    return
                C = [[None] * (n + 1) for _ in range(n + 1)]
                for (s, e), v in zip(iv, vals):
                    C[s][e] = float(v)
                judge(acc, case, n, msl, pen, C, cpts, scores, None, tol=1e-8)
                F = refmodels.opt_partition(C, n, msl, pen)
                if F[n] < C[0][n] - 1e-9:
                    acc.nt()
    except core.CaseTimeout:
        acc.violation("timeout", case, "PELT did not return within the per-case time limit", {"mode": case["mode"]})
    except Exception as e:  # any crash on an admissible case violates the property
        acc.violation(
            "pelt-raised", case, f"{type(e).__name__}: {e}", {"exc": type(e).__name__, "mode": case["mode"]}
        )


def replay(case):
    acc = core.Acc()
    check_case(acc, case)
    return acc.violations
