"""C03 -- CAPA / MVCAPA anomalies maximise the total penalised saving.

Mode B: every sub-additive integer collective-saving table x every point-saving vector
x penalty branch, through the real CAPA / MVCAPA with user-defined TableSaving objects;
Mode A: every small-alphabet data set with the built-in savings.  Oracle: unpruned
recursion over {normal, point anomaly, collective anomaly ending here} per prefix
(cross-checked against full enumeration in the self-test), anomaly values by explicit
enumeration of all non-empty component subsets.
"""

from __future__ import annotations

import itertools
import math

import numpy as np
import pandas as pd

from smc import core, refmodels, util
from smc.envs import TableSaving

ID = "C03"
LEVEL = "exploration"
RULE = (
    "Mode B: one case = (detector, n, p, msl, M, penalty spec, collective saving table, point saving "
    "vector, ignore flag); all sub-additive tables over {0..ub} (built by DFS so the premise holds by "
    "construction) x all point vectors over {0,2} are enumerated per configuration; deviation-bounded "
    "families take the sub-additive closure of all <=d-entry modifications of a zero / additive base "
    "table (deduplicated). Mode A: every series over the alphabet. Non-trivial = the optimum is > 0 "
    "(at least one anomaly is optimal) AND at least one start was pruned (fewer collective queries "
    "than an unpruned run) or, for Mode A, an anomaly is reported."
)
ASSUMPTIONS = [
    "numba not installed: kernels run as plain Python/NumPy",
    "table savings are non-negative integers (savings are non-negative by definition); penalties exact via callables / read back from the fitted detector",
    "reference = unpruned recursion, cross-checked against full enumeration of anomaly sets in ./check --selftest",
    "penalty families dense/sparse/intermediate/combined are taken from the public penalty functions (their formulas are C15's subject)",
]


def ivs(n, msl, M):
    return [(s, s + L) for L in range(msl, min(M, n) + 1) for s in range(0, n - L + 1)]


_TABLE_CACHE = {}


def all_tables(n, msl, M, ub):
    """All sub-additive tables over {0..ub}: value tuples aligned with ivs(n, msl, M)."""
    key = ("full", n, msl, M, ub)
    if key in _TABLE_CACHE:
        return _TABLE_CACHE[key]
    I = ivs(n, msl, M)
    idx = {iv: i for i, iv in enumerate(I)}
    splits = []
    for s, e in I:
        splits.append([(idx[(s, k)], idx[(k, e)]) for k in range(s + msl, e - msl + 1)])
    out = []
    cur = [0] * len(I)

    def rec(i):
        if i == len(I):
            out.append(tuple(cur))
            return
        cap = ub
        for a, b in splits[i]:
            cap = min(cap, cur[a] + cur[b])
        for v in range(0, cap + 1):
            cur[i] = v
            rec(i + 1)

    rec(0)
    _TABLE_CACHE[key] = out
    return out


def dev_tables(n, msl, M, base, vals, d):
    """Sub-additive closure of every <=d-entry modification of the base table, deduplicated."""
    key = ("dev", n, msl, M, base, vals, d)
    if key in _TABLE_CACHE:
        return _TABLE_CACHE[key]
    I = ivs(n, msl, M)
    idx = {iv: i for i, iv in enumerate(I)}
    splits = [[(idx[(s, k)], idx[(k, e)]) for k in range(s + msl, e - msl + 1)] for s, e in I]
    b = [base * (e - s) for s, e in I]
    seen, out = set(), []
    for k in range(0, d + 1):
        for pos in itertools.combinations(range(len(I)), k):
            for vv in itertools.product(vals, repeat=k):
                t = list(b)
                for i, v in zip(pos, vv):
                    t[i] = v
                for i in range(len(I)):  # closure, increasing length
                    for a, c in splits[i]:
                        if t[a] + t[c] < t[i]:
                            t[i] = t[a] + t[c]
                tt = tuple(t)
                if tt not in seen:
                    seen.add(tt)
                    out.append(tt)
    _TABLE_CACHE[key] = out
    return out


def table_array(n, msl, M, vals):
    T = np.full((n + 1, n + 1), np.nan)
    for (s, e), v in zip(ivs(n, msl, M), vals):
        T[s, e] = v
    return T


# penalty specs -----------------------------------------------------------------------


class ConstPenalty:
    """User penalty callable with exact (alpha, betas)."""

    def __init__(self, alpha, betas):
        self.alpha = float(alpha)
        self.betas = tuple(float(b) for b in betas)

    def __call__(self, n, p, n_params_per_variable=1, scale=1.0):
        return self.alpha, np.array(self.betas, dtype=float)

    def __repr__(self):
        return f"ConstPenalty({self.alpha}, {self.betas})"

    def __eq__(self, o):
        return isinstance(o, ConstPenalty) and (self.alpha, self.betas) == (o.alpha, o.betas)

    def __hash__(self):
        return hash((self.alpha, self.betas))


def PS_PP(n, msl, M, coll_cols, point_cols, ca, cb, pa, pb):
    """Penalised collective saving matrix and point saving vector from per-column tables."""
    p = len(coll_cols)
    PS = [[None] * (n + 1) for _ in range(n + 1)]
    for s, e in ivs(n, msl, M):
        sav = [float(coll_cols[j][s][e]) for j in range(p)]
        PS[s][e] = refmodels.penalised_saving_subsets(sav, ca, cb)[0]
    PP = []
    for t in range(n):
        sav = [float(point_cols[j][t]) for j in range(p)]
        PP.append(refmodels.penalised_saving_subsets(sav, pa, pb)[0])
    return PS, PP


def judge(acc, case, n, msl, M, PS, PP, anomalies, scores, key, ignore=False, tol=util.TOL):
    G = refmodels.capa_opt(PS, PP, n, msl, M)
    if len(scores) != n:
        acc.violation("capa-scores-shape", case, f"scores length {len(scores)} != n={n}", key)
        return G
    for t in range(n):
        if not util.close(scores[t], G[t + 1], tol):
            acc.violation(
                "capa-prefix-optimum",
                case,
                f"score at t={t} is {scores[t]!r}; optimal total penalised saving of the prefix is {G[t+1]!r}",
                key,
                expected=G[1:],
                observed=scores,
            )
            return G
    # admissibility
    last = 0
    total = 0.0
    ok = True
    for s, e in anomalies:
        L = e - s
        if s < last or e > n or L < 1 or (L > 1 and not (msl <= L <= M)):
            acc.violation(
                "capa-inadmissible-anomaly", case, f"anomaly [{s},{e}) not admissible (msl={msl}, M={M}, n={n}, previous end {last})", key
            )
            ok = False
            break
        last = e
        total += PP[s] if L == 1 else PS[s][e]
    if ok and not ignore and not util.close(total, scores[-1], tol):
        acc.violation(
            "capa-anomalies-vs-final-score",
            case,
            f"re-evaluating the reported anomalies {anomalies} gives {total!r}, final score is {scores[-1]!r}",
            key,
        )
    return G


def run_detector(det_name, n, p, msl, M, cs, ps, pen, ignore, nparam=1):
    """Build and run the real detector. pen = ('callable', ca, cb, pa, pb) | ('scale', cscale, pscale)
    | ('family', cname, cscale, pname, pscale).  Returns (anomalies, scores, (ca, cb, pa, pb))."""
    from skchange.anomaly_detectors import CAPA, MVCAPA
    import skchange.anomaly_detectors.mvcapa as mv

    X = pd.DataFrame(np.zeros((n, p)))
    if det_name == "CAPA":
        _, cscale, pscale = pen
        det = CAPA(cs, ps, collective_penalty_scale=cscale, point_penalty_scale=pscale,
                   min_segment_length=msl, max_segment_length=M, ignore_point_anomalies=ignore)
        det.fit(X)
        pens = (float(det.collective_penalty_), (0.0,) * p, float(det.point_penalty_), (0.0,) * p)
    else:
        if pen[0] == "callable":
            _, ca, cb, pa, pb = pen
            det = MVCAPA(cs, ps, collective_penalty=ConstPenalty(ca, cb), point_penalty=ConstPenalty(pa, pb),
                         min_segment_length=msl, max_segment_length=M, ignore_point_anomalies=ignore)
            pens = (float(ca), tuple(cb), float(pa), tuple(pb))
        else:
            _, cname, cscale, pname, pscale = pen
            det = MVCAPA(cs, ps, collective_penalty=cname, collective_penalty_scale=cscale,
                         point_penalty=pname, point_penalty_scale=pscale,
                         min_segment_length=msl, max_segment_length=M, ignore_point_anomalies=ignore)
            ca, cb = mv.capa_penalty_factory(cname)(n, p, cs.get_param_size(1), scale=cscale)
            pa, pb = mv.capa_penalty_factory(pname)(n, p, ps.get_param_size(1), scale=pscale)
            pens = (float(ca), tuple(float(b) for b in cb), float(pa), tuple(float(b) for b in pb))
        det.fit(X)
    y = det.predict(X)
    core.emit(det_name, y, n=n, p=p, msl=msl, M=M)
    anomalies = [(int(iv.left), int(iv.right)) for iv in y["ilocs"]]
    if len(y) and y["ilocs"].array.closed != "left":
        raise AssertionError("intervals not left-closed")
    scores = np.asarray(det.scores, dtype=float)
    return anomalies, scores, pens


def unpruned_queries(n, msl):
    return sum(t - msl + 2 for t in range(msl - 1, n))


PEN_MENU_P1 = [("callable", 0, (0,), 0, (0,)), ("callable", 1, (0,), 1, (0,)), ("callable", 0, (1,), 1, (1,)),
               ("callable", 1, (1,), 0, (1,))]
PEN_MENU_P2 = [("callable", 1, (0, 0), 1, (0, 0)), ("callable", 0, (1, 1), 0, (1, 1)), ("callable", 1, (2, 0), 1, (2, 0)),
               ("callable", 1, (1, 2), 0, (1, 2)), ("callable", 0, (0, 0), 0, (0, 0))]


def check_case(acc, case):
    acc.ev()
    acc.sample(case)
    mode = case["mode"]
    key = {"det": case["det"], "mode": mode}
    try:
        with core.case_timer(case.get("timeout", core.CASE_TIMEOUT_S)):
            if mode == "table":
                n, p, msl, M = case["n"], case["p"], case["msl"], case["M"]
                ctabs = [table_array(n, msl, M, v) for v in case["ctab"]]
                ptabs = case["pvec"]
                ct = np.stack(ctabs, axis=2)
                pt = np.full((n + 1, n + 1, p), np.nan)
                for j in range(p):
                    for t in range(n):
                        pt[t, t + 1, j] = ptabs[j][t]
                pen = tuple(case["pen"])
                if pen[0] == "callable":
                    pen = ("callable", pen[1], tuple(pen[2]), pen[3], tuple(pen[4]))
                cs = TableSaving(ct, msl, case.get("nparam", 1))
                ps = TableSaving(pt, 1, case.get("nparam", 1))
                anomalies, scores, pens = run_detector(case["det"], n, p, msl, M, cs, ps, pen, False)
                ca, cb, pa, pb = pens
                PS, PP = PS_PP(n, msl, M, [c.tolist() for c in ctabs], ptabs, ca, cb, pa, pb)
                G = judge(acc, case, n, msl, M, PS, PP, anomalies, scores, key)
                nq = sum(len(c) for c in cs.log)
                if G[n] > 1e-12 and nq < unpruned_queries(n, msl):
                    acc.nt()
                acc.outcome(f"K={len(anomalies)},pts={sum(1 for s, e in anomalies if e - s == 1)}")
                has_point = any(e - s == 1 for s, e in anomalies)
                if case.get("pair", True) and (has_point or n <= 4):
                    cs2 = TableSaving(ct, msl, case.get("nparam", 1))
                    ps2 = TableSaving(pt, 1, case.get("nparam", 1))
                    an2, sc2, _ = run_detector(case["det"], n, p, msl, M, cs2, ps2, pen, True)
                    acc.count("ignore_flag_pairs")
                    want = [a for a in anomalies if a[1] - a[0] > 1]
                    if an2 != want:
                        acc.violation("capa-ignore-flag", case, f"with ignore_point_anomalies: {an2}; without: {anomalies}", key)
                    judge(acc, case, n, msl, M, PS, PP, an2, sc2, key, ignore=True)
            else:
                check_data_case(acc, case, key)
    except core.CaseTimeout:
        acc.violation("timeout", case, "detector did not return within the per-case time limit", key)
    except Exception as e:
        acc.violation("capa-raised", case, f"{type(e).__name__}: {e}", dict(key, exc=type(e).__name__))


def make_saving(name):
    from skchange.anomaly_scores import L2Saving, Saving
    from skchange.costs import GaussianVarCost, L2Cost

    if name == "L2Saving":
        return L2Saving()
    if name == "SavingL2_1":
        return Saving(L2Cost(param=1.0))
    if name == "SavingGV":
        return Saving(GaussianVarCost(param=(0.0, 2.0)))
    raise KeyError(name)


def check_data_case(acc, case, key):
    X = np.array(case["x"], dtype=float)
    n, p = X.shape
    msl, M = case["msl"], case["M"]
    cs, ps = make_saving(case["csav"]), make_saving(case["psav"])
    from skchange.anomaly_detectors import CAPA, MVCAPA

    pen = tuple(case["pen"])
    Xf = pd.DataFrame(X)
    cs, ps = make_saving(case["csav"]), make_saving(case["psav"])
    import skchange.anomaly_detectors.mvcapa as mv

    Xtrain = Xf if not case.get("fit_rows") else Xf.iloc[: case["fit_rows"]]
    if case["det"] == "CAPA":
        det = CAPA(cs, ps, collective_penalty_scale=pen[1], point_penalty_scale=pen[2], min_segment_length=msl,
                   max_segment_length=M)
        det.fit(Xtrain)
        ca, cb, pa, pb = float(det.collective_penalty_), (0.0,) * p, float(det.point_penalty_), (0.0,) * p
    elif pen[0] == "callable":
        ca, cb, pa, pb = float(pen[1]), tuple(map(float, pen[2])), float(pen[3]), tuple(map(float, pen[4]))
        det = MVCAPA(cs, ps, collective_penalty=ConstPenalty(ca, cb), point_penalty=ConstPenalty(pa, pb),
                     min_segment_length=msl, max_segment_length=M)
        det.fit(Xtrain)
    else:
        det = MVCAPA(cs, ps, collective_penalty=pen[1], collective_penalty_scale=pen[2], point_penalty=pen[3],
                     point_penalty_scale=pen[4], min_segment_length=msl, max_segment_length=M)
        det.fit(Xtrain)
        ca, cb = mv.capa_penalty_factory(pen[1])(n, p, cs.get_param_size(1), scale=pen[2])
        pa, pb = mv.capa_penalty_factory(pen[3])(n, p, ps.get_param_size(1), scale=pen[4])
        ca, cb, pa, pb = float(ca), tuple(map(float, cb)), float(pa), tuple(map(float, pb))
    y = det.predict(Xf)
    anomalies = [(int(iv.left), int(iv.right)) for iv in y["ilocs"]]
    scores = np.asarray(det.scores, dtype=float)
    rc, rp = make_saving(case["csav"]).fit(X), make_saving(case["psav"]).fit(X)
    I = [(s, e) for (s, e) in ivs(n, max(msl, rc.min_size), M)]
    cv = rc.evaluate(np.array(I)) if I else np.zeros((0, p))
    cols = [[[None] * (n + 1) for _ in range(n + 1)] for _ in range(p)]
    for (s, e), row in zip(I, cv):
        for j in range(p):
            cols[j][s][e] = max(float(row[j]), 0.0) if abs(row[j]) < 1e-12 else float(row[j])
    pv = rp.evaluate(np.array([(t, t + 1) for t in range(n)]))
    pcols = [[float(pv[t, j]) for t in range(n)] for j in range(p)]
    PS, PP = PS_PP(n, msl, M, cols, pcols, ca, cb, pa, pb)
    G = judge(acc, case, n, msl, M, PS, PP, anomalies, scores, key, tol=1e-8)
    if anomalies:
        acc.nt()
    acc.outcome(f"K={len(anomalies)},pts={sum(1 for s, e in anomalies if e - s == 1)}")


# -------------------------------------------------------------------------------------


def table_configs(tier):
    """(det, n, p, msl, M, family, pvfamily, pens)
    family = ('full', ub) | ('dev', base, vals, d);  pvfamily = 'all' | max number of non-zero point savings"""
    out = []
    capa_pens = [("scale", 0.0, 0.0), ("scale", 0.1, 0.1), ("scale", 0.05, 1.0)]
    fam = [("family",) + f for f in (("sparse", 0.5, "sparse", 0.5), ("dense", 0.3, "dense", 0.2),
                                     ("intermediate", 0.2, "sparse", 0.3), ("combined", 0.3, "combined", 0.3))]
    for n in (2, 3, 4):
        for msl in (2, 3):
            if n < msl:
                continue
            for M in sorted({msl, msl + 1, n}):
                if M < msl:
                    continue
                if n <= 3 or tier == "thorough":
                    out.append(("MVCAPA", n, 1, msl, M, ("full", 2), "all", PEN_MENU_P1))
                    out.append(("CAPA", n, 1, msl, M, ("full", 2), "all", capa_pens))
                else:
                    out.append(("MVCAPA", n, 1, msl, M, ("full", 2), "all", PEN_MENU_P1[1:2]))
                    out.append(("MVCAPA", n, 1, msl, M, ("full", 1), "all", PEN_MENU_P1))
                    out.append(("CAPA", n, 1, msl, M, ("full", 2), "all", capa_pens[1:2]))
                    out.append(("CAPA", n, 1, msl, M, ("full", 1), "all", capa_pens))
    for msl, M in ((2, 2), (2, 3), (2, 5), (3, 4), (3, 5)):
        out.append(("MVCAPA", 5, 1, msl, M, ("full", 1), "all", PEN_MENU_P1[1:3]))
        out.append(("CAPA", 5, 1, msl, M, ("full", 1), "all", capa_pens[1:2]))
    for msl, M in ((2, 6), (3, 6)):
        out.append(("MVCAPA", 6, 1, msl, M, ("full", 1), 0 if M == 6 and msl == 2 else 1, PEN_MENU_P1[1:2]))
    out.append(("MVCAPA", 7, 1, 3, 7, ("full", 1), 0, PEN_MENU_P1[1:2]))
    out.append(("MVCAPA", 4, 2, 2, 4, ("full", 1), "all", PEN_MENU_P2))
    out.append(("MVCAPA", 5, 2, 2, 5, ("full", 1), 0, PEN_MENU_P2[:4]))
    out.append(("CAPA", 4, 2, 2, 3, ("full", 1), "all", capa_pens[1:2]))
    out.append(("MVCAPA", 4, 2, 2, 4, ("full", 2), 1, fam))
    out.append(("MVCAPA", 3, 3, 2, 3, ("full", 2), 1, fam))
    for n in (6, 7, 8):
        for msl, M in ((2, 4), (2, n), (3, n)):
            pv = 1 if (n < 8 or tier == "thorough") else 0
            out.append(("MVCAPA", n, 1, msl, M, ("dev", 0, (1, 2, 3), 2), pv, PEN_MENU_P1[1:2]))
            out.append(("MVCAPA", n, 1, msl, M, ("dev", 1, (0, 3), 2), pv, PEN_MENU_P1[2:3]))
            out.append(("CAPA", n, 1, msl, M, ("dev", 1, (0, 3), 2), pv, capa_pens[1:2]))
    # wide dynamic range: one huge saving (4e6) next to ordinary ones (3) -- comparisons must not be made with a tolerance
    # relative to the running total
    for n in (6, 7) if tier == "quick" else (6, 7, 8, 9):
        for msl, M in ((2, 4), (2, n)):
            out.append(("MVCAPA", n, 1, msl, M, ("dev", 0, (3, 4000000), 2), 1, PEN_MENU_P1[1:2]))
            out.append(("CAPA", n, 1, msl, M, ("dev", 0, (3, 4000000), 2), 1, capa_pens[1:2]))
    if tier == "thorough":
        for msl, M in ((2, 3), (2, 5), (3, 5)):
            out.append(("MVCAPA", 5, 1, msl, M, ("full", 2), "all", PEN_MENU_P1[1:2]))
            out.append(("CAPA", 5, 1, msl, M, ("full", 2), "all", capa_pens[1:2]))
        for msl, M in ((2, 6), (2, 4), (3, 6), (2, 3)):
            out.append(("MVCAPA", 6, 1, msl, M, ("full", 1), "all", PEN_MENU_P1[1:3]))
            out.append(("CAPA", 6, 1, msl, M, ("full", 1), 2, capa_pens[:2]))
        out.append(("MVCAPA", 7, 1, 3, 7, ("full", 1), 2, PEN_MENU_P1[1:3]))
        out.append(("MVCAPA", 7, 1, 3, 6, ("full", 1), 2, PEN_MENU_P1[1:3]))
        out.append(("MVCAPA", 7, 1, 4, 7, ("full", 1), "all", PEN_MENU_P1))
        out.append(("MVCAPA", 5, 2, 2, 5, ("full", 1), "all", PEN_MENU_P2))
        out.append(("MVCAPA", 4, 2, 2, 4, ("full", 2), "all", PEN_MENU_P2[:4]))
        out.append(("MVCAPA", 4, 3, 2, 4, ("full", 1), 1, fam))
        for n in (7, 8):
            for msl, M in ((2, 4), (2, n), (3, n), (4, 8)):
                if M < msl or n < msl:
                    continue
                out.append(("MVCAPA", n, 1, msl, M, ("dev", 0, (1, 2, 3), 3), 1, PEN_MENU_P1[1:2]))
                out.append(("MVCAPA", n, 1, msl, M, ("dev", 1, (0, 3), 3), 1, PEN_MENU_P1[2:3]))
                out.append(("CAPA", n, 1, msl, M, ("dev", 1, (0, 3), 3), 1, capa_pens[1:2]))
        for n in (9, 10):
            for msl, M in ((2, 4), (2, n), (3, n), (4, 8)):
                out.append(("MVCAPA", n, 1, msl, M, ("dev", 0, (1, 2, 3), 2), 2, PEN_MENU_P1[1:2]))
                out.append(("MVCAPA", n, 1, msl, M, ("dev", 1, (0, 3), 2), 2, PEN_MENU_P1[2:3]))
                out.append(("CAPA", n, 1, msl, M, ("dev", 1, (0, 3), 2), 1, capa_pens[1:2]))
    return out


def family_tables(n, msl, M, fam):
    if fam[0] == "full":
        return all_tables(n, msl, M, fam[1])
    return dev_tables(n, msl, M, fam[1], tuple(fam[2]), fam[3])


def point_vectors(n, pvfam):
    if pvfam == "all":
        return list(itertools.product((0, 2), repeat=n))
    out = []
    for k in range(0, pvfam + 1):
        for pos in itertools.combinations(range(n), k):
            v = [0] * n
            for i in pos:
                v[i] = 2
            out.append(tuple(v))
    return out


def data_configs(tier, seed):
    a, b = util.seed_affine(seed)
    top1 = 6 if tier == "quick" else 8
    out = []
    for alph in ((0, 1, 3), tuple(a + b * x for x in (0, 1, 3))):
        for n in range(2, top1 + 1):
            for csav, msl in (("L2Saving", 2), ("SavingL2_1", 2), ("SavingGV", 2), ("L2Saving", 3)):
                if n < msl:
                    continue
                for M in sorted({msl + 1, n}):
                    if M < msl:
                        continue
                    out.append(("CAPA", alph, n, 1, csav, "L2Saving", msl, M, ("scale", 0.1, 0.05)))
                    out.append(("MVCAPA", alph, n, 1, csav, "L2Saving", msl, M, ("family", "combined", 0.1, "sparse", 0.1)))
    # penalties comparable with the savings (so that pruning decisions are tight) -- the family that exposed the
    # "alpha + max(beta)" pruning bound seeded by a sub-agent, which low-penalty configurations cannot see
    for n in range(4, (7 if tier == "quick" else 8) + 1):
        out.append(("MVCAPA", (0, 2), n, 2, "L2Saving", "L2Saving", 2, n, ("callable", 0.5, (3, 3), 4, (4, 4))))
        if n <= 6:
            out.append(("MVCAPA", (0, 2), n, 2, "L2Saving", "L2Saving", 2, 4, ("callable", 1.0, (2, 4), 3, (1, 5))))
    for n in range(4, (8 if tier == "quick" else 10) + 1):
        out.append(("MVCAPA", (0, 2), n, 1, "L2Saving", "L2Saving", 2, n, ("callable", 3.0, (2,), 5, (1,))))
        out.append(("CAPA", (0, 2), n, 1, "L2Saving", "L2Saving", 2, n, ("scale", 1.0, 0.7)))
    # p = 3 with per-component penalties that DECREASE with rank (net savings can go +, -, +): the general branch of the
    # penalised saving must really take the best prefix
    for n in (3, 4) if tier == "quick" else (3, 4, 5):
        out.append(("MVCAPA", (0, 2), n, 3, "L2Saving", "L2Saving", 2, n, ("callable", 0.5, (3, 2.5, 1), 1.0, (3, 2.5, 1))))
    out.append(("MVCAPA", (0, 2), 4, 3, "L2Saving", "L2Saving", 2, 4, ("family", "intermediate", 0.35, "intermediate", 0.35)))
    if tier == "thorough":
        out.append(("MVCAPA", (0, 2), 3, 4, "L2Saving", "L2Saving", 2, 3, ("callable", 0.5, (3, 2.5, 1, 0.5), 1.0, (3, 1, 2.5, 0.5))))
    # fitted on a SHORTER prefix, predicting the full series (penalties read back from the fitted detector; the
    # optimality statement is about the data given to predict, whatever the training length was)
    for n in range(5, (8 if tier == "quick" else 9) + 1):
        for k in (2, 3, n - 1):
            out.append(("CAPA", (0, 2), n, 1, "L2Saving", "L2Saving", 2, 100, ("scale", 0.3, 0.3), k))
            if k != 3:
                out.append(("MVCAPA", (0, 2), n, 1, "L2Saving", "L2Saving", 2, 100, ("callable", 2.0, (1,), 4, (1,)), k))
    if tier == "thorough":
        out.append(("MVCAPA", (0, 1, 2), 6, 2, "L2Saving", "L2Saving", 2, 6, ("callable", 0.5, (3, 3), 4, (4, 4))))
        out.append(("MVCAPA", (0, 2), 4, 3, "L2Saving", "L2Saving", 2, 4, ("callable", 0.5, (3, 3, 3), 4, (4, 4, 4))))
    top2 = 4 if tier == "quick" else 5
    for n in range(2, top2 + 1):
        for fam in ("dense", "sparse", "intermediate", "combined"):
            out.append(("MVCAPA", (0, 2), n, 2, "L2Saving", "L2Saving", 2, n, ("family", fam, 0.2, "sparse", 0.1)))
        out.append(("CAPA", (0, 2), n, 2, "L2Saving", "L2Saving", 2, n, ("scale", 0.1, 0.05)))
    return out




def long_configs(tier):
    out = []
    for n in (12, 16) if tier == "quick" else (12, 16, 20, 24):
        for msl, M in ((2, 6), (4, n), (5, 8)):
            out.append(("CAPA", n, msl, M, ("scale", 0.5, 0.5)))
            out.append(("MVCAPA", n, msl, M, ("callable", 3.0, (2,), 5, (1,))))
    return out


def real_configs(tier):
    """Realistic lengths (pruning has been active for a while, more than 16 / 32 prefixes with pending starts): every
    placement of <= 2 changes, min_segment_length 10 and 4: (det, n, msl, M, pen)."""
    out = [("CAPA", 40, 10, 40, ("scale", 1.0, 1.0)), ("MVCAPA", 40, 10, 40, ("callable", 3.0, (2,), 5, (1,))), ("CAPA", 40, 4, 25, ("scale", 1.0, 1.0))]
    if tier != "quick":
        out += [("CAPA", 56, 10, 56, ("scale", 1.0, 1.0)), ("CAPA", 72, 12, 40, ("scale", 0.5, 0.5)), ("MVCAPA", 56, 7, 56, ("callable", 3.0, (2,), 5, (1,)))]
    return out


def xlong_configs(tier):
    """Very long single cases (block boundaries of a chunked implementation fall inside the data): (det, n, msl, M, pen)."""
    out = []
    for n in (900,) if tier == "quick" else (900, 2500):
        out.append(("CAPA", n, 3, 60, ("scale", 1.0, 1.0)))
        out.append(("MVCAPA", n, 2, 45, ("callable", 20.0, (2,), 25.0, (1,))))
    return out


def shards(tier, seed):
    sh = [("xlong", tier, i) for i in range(len(xlong_configs(tier)))] + [("long", tier, i) for i in range(len(long_configs(tier)))]
    for i, (det, n, msl, M, pen) in enumerate(real_configs(tier)):
        tot = 2 * (1 + (n - 1) + (n - 1) * (n - 2) // 2)
        sh += [("real", tier, i, lo, min(tot, lo + 300)) for lo in range(0, tot, 300)]
    for ci, cfg in enumerate(table_configs(tier)):
        det, n, p, msl, M, fam, pvfam, pens = cfg
        nt = len(family_tables(n, msl, M, fam))
        per = len(point_vectors(n, pvfam)) * len(pens)
        SH = max(1, 4000 // per)
        for lo in range(0, nt, SH):
            sh.append(("table", tier, ci, lo, min(nt, lo + SH)))
    for ci, cfg in enumerate(data_configs(tier, seed)):
        det, alph, n, p = cfg[:4]
        total = len(alph) ** (n * p)
        for lo in range(0, total, 729):
            sh.append(("data", tier, seed, ci, lo, min(total, lo + 729)))
    return sh


def bounds(tier, seed):
    return {
        "table_configs(det,n,p,msl,M,family,point_vector_family,n_penalty_specs,n_tables)": [
            [c[0], c[1], c[2], c[3], c[4], str(c[5]), str(c[6]), len(c[7]), len(family_tables(c[1], c[3], c[4], c[5]))]
            for c in table_configs(tier)
        ],
        "data_configs": [str(c) for c in data_configs(tier, seed)][:80],
        "medium_length(det,n,msl,M,pen)": [str(c) for c in long_configs(tier)],
        "realistic_length(det,n,msl,M,pen), all placements of <= 2 changes": [str(c) for c in real_configs(tier)],
    }


def run_shard(shard):
    acc = core.Acc()
    if shard[0] == "xlong":
        det, n, msl, M, pen = xlong_configs(shard[1])[shard[2]]
        x = [[v] for v in util.very_long_series(n, 211)]
        for t in range(100, n, 97):  # anomalies: short level excursions and isolated spikes
            if (t // 97) % 3 == 0:
                x[t][0] += 9.0
            else:
                for u in range(t, min(n, t + 5 + (t // 97) % 20)):
                    x[u][0] += 4.0
        check_case(acc, {"mode": "data", "det": det, "x": x, "csav": "L2Saving", "psav": "L2Saving", "msl": msl, "M": M, "pen": list(pen), "timeout": 900})
        return acc
    if shard[0] == "real":
        det, n, msl, M, pen = real_configs(shard[1])[shard[2]]
        for cps, xs in itertools.islice(util.structured_series(n, 2, (0.0, 3.0)), shard[3], shard[4]):
            check_case(acc, {"mode": "data", "det": det, "x": [[v] for v in xs], "csav": "L2Saving", "psav": "L2Saving", "msl": msl, "M": M, "pen": list(pen)})
        return acc
    if shard[0] == "long":
        det, n, msl, M, pen = long_configs(shard[1])[shard[2]]
        for cps, xs in util.structured_series(n, 2, (0.0, 3.0)):
            check_case(acc, {"mode": "data", "det": det, "x": [[v] for v in xs], "csav": "L2Saving", "psav": "L2Saving", "msl": msl, "M": M, "pen": list(pen)})
        # four changes = two separated anomalies, plus an isolated spike
        for cps, xs in util.structured_series(n, 4, (0.0, 3.0)):
            if len(cps) == 4 and (cps[0] + 2 * cps[1] + cps[3]) % 7 == 0:
                x = [[v] for v in xs]
                x[(cps[2] + n) // 2 % n][0] += 6.0
                check_case(acc, {"mode": "data", "det": det, "x": x, "csav": "L2Saving", "psav": "L2Saving", "msl": msl, "M": M, "pen": list(pen)})
        return acc
    if shard[0] == "table":
        _, tier, ci, lo, hi = shard
        det, n, p, msl, M, fam, pvfam, pens = table_configs(tier)[ci]
        tabs = family_tables(n, msl, M, fam)
        pvs = point_vectors(n, pvfam)
        nt = len(tabs)
        for i in range(lo, hi):
            for pi, pv in enumerate(pvs):
                if p == 1:
                    ctab, pvec = [tabs[i]], [pv]
                else:
                    ctab = [tabs[(i * (7919 + 104729 * j) + 13 * j) % nt] if j else tabs[i] for j in range(p)]
                    pvec = [pvs[(pi * (31 + 17 * j) + 7 * j) % len(pvs)] if j else pv for j in range(p)]
                for pen in pens:
                    case = {"mode": "table", "det": det, "n": n, "p": p, "msl": msl, "M": M,
                            "ctab": [list(c) for c in ctab], "pvec": [list(v) for v in pvec], "pen": list(pen),
                            "pair": n <= 4 or pen == pens[0]}
                    check_case(acc, case)
    else:
        _, tier, seed, ci, lo, hi = shard
        cfg = data_configs(tier, seed)[ci]
        det, alph, n, p, csav, psav, msl, M, pen = cfg[:9]
        for flat in itertools.islice(itertools.product(alph, repeat=n * p), lo, hi):
            x = [list(flat[i * p:(i + 1) * p]) for i in range(n)]
            case = {"mode": "data", "det": det, "x": x, "csav": csav, "psav": psav, "msl": msl, "M": M, "pen": list(pen)}
            if len(cfg) > 9:
                case["fit_rows"] = cfg[9]
            check_case(acc, case)
    return acc


def replay(case):
    acc = core.Acc()
    check_case(acc, case)
    return acc.violations
