"""C10 -- results depend only on hyper-parameters, training data and the input (Mode C).

Explicit-state breadth-first search over call histories.  Every transition executes a
real public method on real objects (deep copy of the parent state's world, sharing
preserved) and is checked against a pristine object built BY CONSTRUCTORS ONLY from the
reference model's specification tree, fitted on the model's training data.
"""

from __future__ import annotations

import collections
import copy
import hashlib
import os

import numpy as np
import pandas as pd

from smc import core
from smc import histories as H
from smc.histories import Spec

ID = "C10"
LEVEL = "model_checking"
RULE = (
    "state = (concrete object graph of the world incl. shared scorers, reference-model state, skchange module "
    "globals), de-duplicated on a structural hash; transition = one public call (fit / fit_predict / update / predict / transform / "
    "transform_scores / scorer.fit / scorer.evaluate / set_params incl. nested keys and scorer replacement / clone / "
    "get_params) executed on the real objects. ALL event sequences up to the stated depth are explored per world "
    "(BFS). evaluations = transitions; distinct_nontrivial = distinct states reached in which at least one object "
    "is fitted. traces_validated_against_impl = transitions (each is an execution of the implementation compared "
    "with the constructor-built pristine reference)."
)
ASSUMPTIONS = [
    "the reference (pristine) object is built by constructors only from the model's specification tree -- never via set_params or clone",
    "after a direct set_params on a NESTED object (not through the parent) the parent is not reset by sktime: its outputs may reflect either the current configuration or the configuration at its last fit",
    "a wrapper (ChangeScore / Saving) whose shared inner cost was refitted through another wrapper since its own last fit is not judged until it is refitted (aliasing chosen by the user)",
    "the caller may overwrite its own data buffer in place between calls (worlds *-mutable-buffer); 'the data given to the last fit' means its contents at that time",
    "a scorer shared with a detector may, on direct evaluate, reflect its last explicit fit OR any data a sharing detector was given since (the statement does not fix whether a detector's internal refit counts)",
    "update is explored with pandas data continuing the index of the fitted data (as the statement says)",
    "histories in which a mutating call raises (in both implementation and reference) are not extended further",
    "outputs are compared exactly (1e-10 tolerance inside float arrays)",
]

# ---------------------------------------------------------------------------------
# data sets (never handed out directly: each call gets the shared object, which is
# compared with its pristine bytes afterwards)


def _mk():
    A = pd.DataFrame({"a": [0.0, 0.5, 0.0, 0.5, 4.0, 4.5, 4.0, 4.5]})
    # same shape AND same multiset of values as A (a cache keyed on shape / totals / extremes cannot tell them apart)
    Ap = pd.DataFrame({"a": [4.5, 4.0, 0.5, 0.0, 0.5, 0.0, 4.0, 4.5]})
    B = pd.DataFrame({"a": [0.0, 1.0, 0.0, 5.0, 6.0, 5.0], "b": [2.0, 2.5, 2.0, 2.5, 9.0, 2.0]})
    B.index = pd.RangeIndex(6, name="time")  # a NAMED index: the name belongs to the caller's data too
    U = pd.DataFrame({"a": [4.0, 0.0, 0.5]}, index=pd.RangeIndex(8, 11))
    # high level, small spread (|mean| > 100 * std) and a constant non-zero second data set: "numerical stability"
    # shortcuts (centring, rescaling) that touch the caller's data in place show on such data
    Hh = pd.DataFrame({"a": [1013.0, 1012.5, 1013.5, 1013.0, 1019.0, 1018.5, 1019.5, 1019.0]})
    # D: rows 3 and 6 are equal, so the pooled surroundings of the cut BADCUT = (3, 4, 6, 7) have zero variance (the documented
    # RuntimeError of the covariance cost is raised in the MIDDLE of an evaluate call); the standard cuts evaluate fine
    D = pd.DataFrame({"a": [0.0, 0.5, 1.0, 0.0, 4.0, 4.5, 0.0, 2.0]})
    d = {"A": A, "Ap": Ap, "B": B, "U": U, "H": Hh, "D": D}
    # contents of the caller-owned MUTABLE buffer "M" (world entry "__M__"): the caller overwrites it in place
    # between calls (event "mutate"); version 0 / 1
    d["M0"] = pd.DataFrame({"a": [0.0, 0.5, 0.0, 0.5, 4.0, 4.5, 4.0, 4.5]})
    d["M1"] = pd.DataFrame({"a": [4.5, 0.5, 4.0, 0.0, 0.5, 4.5, 0.0, 4.0]})
    d["A+U"] = pd.concat([A, U])
    # V continues A as well, but RESTATES only some of A's last rows (labels 5 and 7, with the values A already has there, so
    # that "the old and the new data combined" is unambiguous) and skips label 6: the combined data are labels 0..9
    d["V"] = pd.DataFrame({"a": [4.5, 4.5, 1.0, 0.0]}, index=pd.Index([5, 7, 8, 9]))
    d["A+V"] = pd.DataFrame({"a": list(A["a"]) + [1.0, 0.0]})
    d["Ap+U"] = pd.concat([Ap, U])
    return d


DATA = _mk()
DATA_CANON = {k: H.canon_value(v) for k, v in DATA.items()}
CUTS = {2: np.array([[0, 4], [1, 6]]), 3: np.array([[0, 2, 5], [1, 3, 6]]), 4: np.array([[0, 1, 4, 6], [0, 2, 4, 5]])}
CUTS_CANON = {k: H.canon_value(v) for k, v in CUTS.items()}
BADCUT = np.array([[0, 1, 4, 6], [3, 4, 6, 7]])


# ---------------------------------------------------------------------------------
# reference model


class MObj:
    __slots__ = ("spec", "fitted", "fitdata", "extra", "role", "stale", "fitspec")

    def __init__(self, spec, role):
        self.spec, self.role = spec, role
        self.fitted, self.fitdata, self.extra = False, None, frozenset()
        # stale: a wrapper whose shared inner scorer was refitted through ANOTHER object since its own last
        # fit; its evaluate is then not determined by its own last fit (aliasing chosen by the user) and is not judged
        self.stale = False
        # fully inlined specification at the time of the last fit: if a NESTED object referenced by this one is
        # re-configured directly afterwards (its own set_params, not this object's), this object is not reset and its
        # fitted state still reflects the old configuration; either reading of "current hyper-parameters" is accepted
        self.fitspec = None

    def copy(self):
        m = MObj(self.spec.copy(), self.role)
        m.fitted, m.fitdata, m.extra, m.stale = self.fitted, self.fitdata, self.extra, self.stale
        m.fitspec = self.fitspec
        return m


def model_canon(model):
    res = lambda ref: model[ref[1:]].spec  # noqa: E731
    return tuple((n, m.spec.canon(None), m.fitted, m.fitdata, tuple(sorted(m.extra)), m.stale,
                  m.fitspec.canon(None) if m.fitspec is not None else None) for n, m in sorted(model.items()))


def refs_of(spec, model, acc=None):
    """Names of world-level objects reachable from a spec through '@' references."""
    acc = set() if acc is None else acc
    for v in spec.params.values():
        if isinstance(v, Spec):
            refs_of(v, model, acc)
        elif isinstance(v, str) and v.startswith("@"):
            if v[1:] not in acc:
                acc.add(v[1:])
                refs_of(model[v[1:]].spec, model, acc)
    return acc


def params_canon(obj, names):
    """Canonical form of the real object's hyper-parameters (get_params, recursively)."""
    from skbase.base import BaseObject

    items = []
    for k, v in sorted(obj.get_params(deep=False).items()):
        if isinstance(v, BaseObject):
            v = params_canon(v, names)
        elif callable(v):
            v = getattr(v, "__name__", repr(v))
        else:
            v = repr(H.pnorm(v))
        items.append((k, v))
    return (type(obj).__name__, tuple(items))


def spec_from_obj(obj, names):
    from skbase.base import BaseObject

    kw = {}
    for k, v in obj.get_params(deep=False).items():
        if isinstance(v, BaseObject):
            kw[k] = "@" + names[id(v)] if id(v) in names else spec_from_obj(v, names)
        else:
            kw[k] = v
    return Spec(type(obj).__name__, **kw)


# ---------------------------------------------------------------------------------
# worlds


def worlds():
    import skchange.anomaly_detectors as ad
    import skchange.anomaly_scores as asc
    import skchange.change_detectors as cd
    import skchange.change_scores as cs
    import skchange.costs as co

    W = {}

    def shared_cost():
        c = co.L2Cost()
        return {"c": c, "pelt": cd.PELT(c, penalty_scale=0.05, min_segment_length=1),
                "sbs": cd.SeededBinarySegmentation(c, threshold_scale=0.3, min_segment_length=1, max_interval_length=20)}

    W["shared-cost"] = (shared_cost, {
        "sets": [("c", "param", 1.0), ("pelt", "penalty_scale", 0.5), ("pelt", "cost__param", 2.0, "L2Cost"), ("sbs", "min_segment_length", 2),
                 ("pelt", "cost", Spec("GaussianVarCost", param=None))],
        "data": ("A", "Ap", "B")})

    W["pelt"] = (lambda: {"pelt": cd.PELT(co.L2Cost(), penalty_scale=0.05, min_segment_length=1)}, {
        "sets": [("pelt", "penalty_scale", 0.5), ("pelt", "cost__param", 2.0, "L2Cost"), ("pelt", "min_segment_length", 2),
                 ("pelt", "cost", Spec("GaussianVarCost", param=None)), ("pelt", "cost__param", (0.0, 2.0), "GaussianVarCost")],
        "data": ("A", "Ap", "B"), "deep": True})

    W["mw"] = (lambda: {"mw": cd.MovingWindow(cs.CUSUM(), bandwidth=2, threshold_scale=0.1)}, {
        "sets": [("mw", "bandwidth", 3), ("mw", "threshold_scale", None), ("mw", "change_score", Spec("L2Cost", param=None)),
                 ("mw", "change_score__param", 1.0, "L2Cost")],
        "data": ("A", "Ap", "H"), "deep": True})

    W["sbs-tuned"] = (lambda: {"sbs": cd.SeededBinarySegmentation(co.L2Cost(), threshold_scale=None, level=0.3, min_segment_length=1,
                                                                  max_interval_length=8)}, {
        "sets": [("sbs", "level", 0.5), ("sbs", "change_score__param", 1.0, "L2Cost"), ("sbs", "threshold_scale", 0.3)],
        "data": ("A", "Ap", "B")})

    W["capa"] = (lambda: {"capa": ad.CAPA(co.L2Cost(param=0.0), co.L2Cost(param=0.0), collective_penalty_scale=0.1,
                                          point_penalty_scale=0.05, min_segment_length=2, max_segment_length=100)}, {
        "sets": [("capa", "collective_saving__param", 2.0, "L2Cost"), ("capa", "min_segment_length", 3), ("capa", "ignore_point_anomalies", True),
                 ("capa", "point_saving__param", 1.0, "L2Cost")],
        "data": ("A", "Ap", "B")})

    W["mvcapa"] = (lambda: {"mv": ad.MVCAPA(collective_penalty_scale=0.1, point_penalty_scale=0.1, min_segment_length=2,
                                            max_segment_length=100)}, {
        "sets": [("mv", "collective_penalty", "sparse"), ("mv", "collective_saving", Spec("L2Cost", param=1.0)),
                 ("mv", "collective_saving__param", 2.0, "L2Cost"), ("mv", "max_segment_length", 3)],
        "data": ("A", "Ap", "B")})

    W["cbs"] = (lambda: {"cbs": ad.CircularBinarySegmentation(co.L2Cost(), threshold_scale=0.05, min_segment_length=1,
                                                              max_interval_length=20)}, {
        "sets": [("cbs", "anomaly_score__param", 1.0, "L2Cost"), ("cbs", "min_segment_length", 2), ("cbs", "anomaly_score", Spec("GaussianVarCost", param=None)),
                 ("cbs", "anomaly_score__param", (0.0, 2.0), "GaussianVarCost")],
        "data": ("A", "Ap", "B")})

    def sta():
        inner = cd.PELT(co.L2Cost(), penalty_scale=0.05, min_segment_length=1)
        return {"inner": inner, "sta": ad.StatThresholdAnomaliser(inner, stat=np.mean, stat_lower=1.0, stat_upper=3.0)}

    W["sta"] = (sta, {
        "sets": [("sta", "stat_upper", 5.0), ("sta", "change_detector__min_segment_length", 2), ("inner", "penalty_scale", 0.5),
                 ("sta", "change_detector__penalty_scale", 2.0)],
        "data": ("A", "A+U")})  # different lengths: PELT's fitted penalty depends on n

    def capa_shared():
        c = co.L2Cost(param=0.0)
        return {"c": c, "capa": ad.CAPA(c, c, collective_penalty_scale=0.1, point_penalty_scale=0.05, min_segment_length=2,
                                        max_segment_length=100)}

    W["capa-shared"] = (capa_shared, {"sets": [("c", "param", 2.0), ("capa", "min_segment_length", 3), ("capa", "collective_saving__param", 1.0, "L2Cost")],
                                      "data": ("A", "Ap", "B")})

    def mv_shared():
        sv = asc.L2Saving()
        return {"sv": sv, "mv": ad.MVCAPA(sv, sv, collective_penalty_scale=0.1, point_penalty_scale=0.1, min_segment_length=2,
                                          max_segment_length=100),
                "capa": ad.CAPA(sv, sv, collective_penalty_scale=0.1, point_penalty_scale=0.05, min_segment_length=2, max_segment_length=100)}

    W["saving-shared"] = (mv_shared, {"sets": [("mv", "min_segment_length", 3), ("capa", "ignore_point_anomalies", True)], "data": ("A", "B")})

    def mw_cbs_shared():
        c = co.L2Cost()
        return {"c": c, "mw": cd.MovingWindow(c, bandwidth=2, threshold_scale=0.1),
                "cbs": ad.CircularBinarySegmentation(c, threshold_scale=0.05, min_segment_length=1, max_interval_length=20)}

    W["mw-cbs-shared"] = (mw_cbs_shared, {"sets": [("c", "param", 1.0), ("mw", "bandwidth", 3), ("cbs", "anomaly_score__param", 2.0, "L2Cost")],
                                          "data": ("A", "B")})

    def sta_mw():
        # tuned threshold: the wrapped detector's fit depends on its training data, so an anomaliser that
        # re-uses the user's (already fitted) detector instead of fitting a clone is visible
        inner = cd.MovingWindow(bandwidth=2, threshold_scale=None, level=0.3)
        return {"inner": inner, "sta": ad.StatThresholdAnomaliser(inner, stat=np.median, stat_lower=1.0, stat_upper=3.0)}

    W["sta-mw"] = (sta_mw, {"sets": [("sta", "stat_lower", 0.1), ("sta", "change_detector__bandwidth", 3), ("inner", "threshold_scale", 0.5)],
                            "data": ("A", "Ap")})

    # a narrow menu explored DEEPER (fit / predict of the anomaliser, re-configuration of the wrapped detector through the
    # object the caller still holds and through the anomaliser): histories such as fit(A), inner.set_params(...), fit(Ap),
    # predict(Ap) need four and more steps
    def sta_refit():
        inner = cd.MovingWindow(bandwidth=2, threshold_scale=0.2)
        return {"inner": inner, "sta": ad.StatThresholdAnomaliser(inner, stat=np.median, stat_lower=1.0, stat_upper=3.0)}

    W["sta-refit"] = (sta_refit, {"sets": [("inner", "bandwidth", 3), ("sta", "change_detector__threshold_scale", 0.05), ("sta", "stat_lower", 0.1)],
                                  "data": ("A", "Ap"), "no_events": ("inner",), "only": ("fit", "predict", "set"), "depth": (5, 6)})

    def pelt_refit():
        c = co.L2Cost()
        return {"c": c, "pelt": cd.PELT(c, penalty_scale=0.05, min_segment_length=1)}

    W["pelt-refit"] = (pelt_refit, {"sets": [("c", "param", 1.0), ("pelt", "min_segment_length", 2), ("pelt", "cost__param", 2.0, "L2Cost")],
                                    "data": ("A", "A+U"), "no_events": ("c",), "only": ("fit", "predict", "tscores", "set"), "depth": (5, 6)})

    # scorers alone
    W["l2cost"] = (lambda: {"s": co.L2Cost()}, {"sets": [("s", "param", 1.0), ("s", "param", None)], "data": ("A", "Ap", "B"), "deep": True})
    W["gvcost"] = (lambda: {"s": co.GaussianVarCost()}, {"sets": [("s", "param", (0.0, 2.0)), ("s", "param", None)], "data": ("A", "Ap", "B"), "deep": True})
    W["covcost"] = (lambda: {"s": co.GaussianCovCost()}, {
        "sets": [("s", "param", (0.0, 2.0)), ("s", "param", None), ("s", "param", (1.0, 0.5))], "data": ("A", "Ap", "B"), "deep": True})
    W["changescore-cov"] = (lambda: {"s": cs.ChangeScore(co.GaussianCovCost())}, {
        "sets": [("s", "cost__param", (0.0, 2.0), "GaussianCovCost"), ("s", "cost", Spec("L2Cost", param=None))], "data": ("A", "Ap", "B"), "deep": True})
    W["pelt-cov"] = (lambda: {"pelt": cd.PELT(co.GaussianCovCost(), penalty_scale=0.05, min_segment_length=3)}, {
        "sets": [("pelt", "cost__param", (0.0, 2.0), "GaussianCovCost"), ("pelt", "penalty_scale", 0.5)], "data": ("A", "Ap", "B")})
    # minimum size of the covariance cost depends on the number of columns of its LAST fit: detectors re-used on
    # narrower data, and detectors sharing such a cost
    W["pelt-cov-msl2"] = (lambda: {"pelt": cd.PELT(co.GaussianCovCost(), penalty_scale=0.05, min_segment_length=2)}, {
        "sets": [("pelt", "penalty_scale", 0.5)], "data": ("B", "A", "Ap")})

    def cov_shared():
        c = co.GaussianCovCost()
        return {"c": c, "pelt": cd.PELT(c, penalty_scale=0.05, min_segment_length=2), "mw": cd.MovingWindow(c, bandwidth=2, threshold_scale=0.1)}

    W["cov-cost-shared"] = (cov_shared, {"sets": [], "data": ("B", "A"), "no_events": ("c",)})
    W["cusum"] = (lambda: {"s": cs.CUSUM()}, {"sets": [], "data": ("A", "H", "B"), "deep": True})
    W["sbs-cusum"] = (lambda: {"sbs": cd.SeededBinarySegmentation(threshold_scale=0.3, min_segment_length=1, max_interval_length=8)}, {
        "sets": [("sbs", "growth_factor", 2.0)], "data": ("A", "H")})
    # two instances of one class: state shared between instances (class attributes, module-level memos)
    for cname, mk in (("l2cost", co.L2Cost), ("gvcost", co.GaussianVarCost), ("covcost", co.GaussianCovCost), ("cusum", cs.CUSUM),
                      ("l2saving", asc.L2Saving)):
        W["two-" + cname] = ((lambda mk=mk: {"s": mk(), "t": mk()}), {"sets": [], "data": ("A", "B")})
    # two wrappers sharing one cost object (no direct calls on the cost itself)
    def two_wrappers():
        c = co.L2Cost()
        return {"c": c, "a": cs.ChangeScore(c), "b": cs.ChangeScore(c)}

    W["wrappers-shared-cost"] = (two_wrappers, {"sets": [], "data": ("A", "B"), "no_events": ("c",)})

    def two_savings():
        c = co.L2Cost(param=0.0)
        return {"c": c, "a": asc.Saving(c), "b": asc.Saving(c)}

    W["savings-shared-cost"] = (two_savings, {"sets": [], "data": ("A", "B"), "no_events": ("c",)})
    # the caller overwrites its own buffer in place between calls
    W["l2cost-mutable-buffer"] = (lambda: {"s": co.L2Cost()}, {"sets": [], "data": ("M", "B"), "mutable": True, "deep": True})
    W["changescore-mutable-buffer"] = (lambda: {"s": cs.ChangeScore(co.GaussianVarCost())}, {"sets": [], "data": ("M", "B"), "mutable": True, "deep": True})
    W["pelt-mutable-buffer"] = (lambda: {"pelt": cd.PELT(co.L2Cost(), penalty_scale=0.05, min_segment_length=1)},
                                {"sets": [], "data": ("M", "B"), "mutable": True})
    W["mw-mutable-buffer"] = (lambda: {"mw": cd.MovingWindow(bandwidth=2, threshold_scale=None, level=0.3)},
                              {"sets": [], "data": ("M", "Ap"), "mutable": True})
    # two detectors of one class (own scorers): instance-independent state hidden in class attributes / module globals
    W["two-pelt"] = (lambda: {"d1": cd.PELT(co.L2Cost(), penalty_scale=0.05, min_segment_length=1),
                              "d2": cd.PELT(co.L2Cost(), penalty_scale=0.5, min_segment_length=2)}, {"sets": [], "data": ("A", "B")})
    W["two-mw"] = (lambda: {"d1": cd.MovingWindow(bandwidth=2, threshold_scale=0.1), "d2": cd.MovingWindow(bandwidth=3, threshold_scale=None, level=0.3)},
                   {"sets": [], "data": ("A", "H")})
    W["two-sbs"] = (lambda: {"d1": cd.SeededBinarySegmentation(threshold_scale=0.3, min_segment_length=1, max_interval_length=8),
                             "d2": cd.SeededBinarySegmentation(threshold_scale=0.3, min_segment_length=2, max_interval_length=6, growth_factor=2.0)},
                    {"sets": [], "data": ("A", "B")})
    W["two-cbs"] = (lambda: {"d1": ad.CircularBinarySegmentation(threshold_scale=0.05, min_segment_length=1, max_interval_length=8),
                             "d2": ad.CircularBinarySegmentation(threshold_scale=0.05, min_segment_length=2, max_interval_length=8)},
                    {"sets": [], "data": ("A", "B")})
    W["two-capa"] = (lambda: {"d1": ad.CAPA(collective_penalty_scale=0.1, point_penalty_scale=0.05, min_segment_length=2, max_segment_length=100),
                              "d2": ad.MVCAPA(collective_penalty_scale=0.1, point_penalty_scale=0.1, min_segment_length=3, max_segment_length=4)},
                     {"sets": [], "data": ("A", "B")})
    W["two-localscore-cov"] = (lambda: {"s": asc.LocalAnomalyScore(co.GaussianCovCost()), "t": asc.LocalAnomalyScore(co.GaussianCovCost())},
                               {"sets": [], "data": ("Ap", "B")})
    W["two-pelt-cov"] = (lambda: {"p1": cd.PELT(co.GaussianCovCost(), penalty_scale=0.05, min_segment_length=3),
                                  "p2": cd.PELT(co.GaussianCovCost(), penalty_scale=0.05, min_segment_length=3), "s": co.GaussianCovCost()},
                         {"sets": [], "data": ("Ap", "B")})
    W["changescore"] = (lambda: {"s": cs.ChangeScore(co.L2Cost())}, {
        "sets": [("s", "cost__param", 1.0, "L2Cost"), ("s", "cost", Spec("GaussianVarCost", param=None)), ("s", "cost__param", (0.0, 2.0), "GaussianVarCost")],
        "data": ("A", "Ap", "B"), "deep": True})
    W["l2saving"] = (lambda: {"s": asc.L2Saving()}, {"sets": [], "data": ("A", "Ap", "B"), "deep": True})
    W["saving"] = (lambda: {"s": asc.Saving(co.L2Cost(param=0.0))}, {
        "sets": [("s", "baseline_cost__param", 2.0, "L2Cost"), ("s", "baseline_cost", Spec("GaussianVarCost", param=(0.0, 2.0))),
                 ("s", "baseline_cost__param", (1.0, 0.5), "GaussianVarCost")],
        "data": ("A", "Ap", "B"), "deep": True})
    W["localscore"] = (lambda: {"s": asc.LocalAnomalyScore(co.L2Cost())}, {
        "sets": [("s", "cost__param", 1.0, "L2Cost"), ("s", "cost", Spec("GaussianVarCost", param=None)), ("s", "cost__param", (0.0, 2.0), "GaussianVarCost")],
        "data": ("A", "Ap", "B"), "deep": True})
    # a call that FAILS half-way (documented RuntimeError) must not change later results
    W["localscore-cov-failing-call"] = (lambda: {"s": asc.LocalAnomalyScore(co.GaussianCovCost())},
                                        {"sets": [], "data": ("D", "A"), "evalbad": True, "deep": True})
    W["localscore-gv"] = (lambda: {"s": asc.LocalAnomalyScore(co.GaussianVarCost())}, {
        "sets": [("s", "cost__param", (0.0, 2.0)), ("s", "cost__param", (1.0, 0.5))], "data": ("A", "Ap", "B"), "deep": True})
    return W


def is_detector(obj):
    from skchange.base import BaseDetector

    return isinstance(obj, BaseDetector)


def events_for(objs, cfg):
    ev = []
    data = cfg["data"]
    ids = {id(o) for o in objs.values()}
    referenced = {n for n, o in objs.items() for k2, o2 in objs.items() if o2 is not o and k2 != "__M__" and n != "__M__"
                  and any(v is o for v in o2.get_params(deep=True).values())}
    for name, o in objs.items():
        if name in cfg.get("no_events", ()) or name == "__M__":
            continue
        if is_detector(o):
            for d in data:
                ev.append(("fit", name, d))
                ev.append(("predict", name, d))
            for d in data[:2]:
                ev.append(("fitpredict", name, d))
            ev.append(("transform", name, data[0]))
            ev.append(("tscores", name, data[1]))
            ev.append(("update", name, "U"))
            if "A" in data:
                ev.append(("update", name, "V"))
            if name not in referenced:  # re-binding a name other objects refer to is outside the model
                ev.append(("clone", name))
        else:
            for d in data:
                ev.append(("sfit", name, d))
            ev.append(("eval", name))
            if cfg.get("evalbad"):
                ev.append(("evalbad", name))
            if len(objs) == 1:
                ev.append(("clone", name))
        ev.append(("getp", name))
    for st in cfg["sets"]:
        ev.append(("set",) + tuple(st))
    if cfg.get("mutable"):
        ev.append(("mutate", "__M__"))
    if cfg.get("only"):
        ev = [e for e in ev if e[0] in cfg["only"]]
    return ev


def ev_json(ev):
    return [e.canon() if isinstance(e, Spec) else (repr(e) if not isinstance(e, (str, int, float, type(None))) else e) for e in ev]


# ---------------------------------------------------------------------------------


class Explorer:
    def __init__(self, wname, depth, acc):
        self.wname, self.depth, self.acc = wname, depth, acc
        self.make, self.cfg = worlds()[wname]
        self.G = H.GlobalsTracker()
        self.g0 = self.G.snapshot()
        self.g0d = self.G.digest()
        self.gcur = self.g0d
        self.memo = {}
        self.outputs = set()

    # -- pristine reference ----------------------------------------------------------
    def pristine(self, model, name, fitted, fitdata, method, arg, spec=None):
        m = model[name]
        res = lambda ref: model[ref[1:]].spec  # noqa: E731
        spec = m.spec if spec is None else spec
        key = (spec.canon(res), fitted, fitdata, method, arg)
        if key in self.memo:
            return self.memo[key]
        if self.gcur != self.g0d:
            self.G.restore(self.g0)
        raw = getattr(self, "raw", None)
        try:
            obj = H.build(spec, res)
            if fitted:
                obj.fit(DATA[fitdata].copy())
            out = ("ok", self.call(obj, method, arg, fresh=True))
        except Exception as e:
            out = ("exc", type(e).__name__)
        self.raw = raw  # the reference object's output is not the caller's held result
        self.gcur = self.G.digest()
        self.memo[key] = out
        return out

    def ests(self, world):
        return [(n, o) for n, o in world.items() if not n.startswith("__")]

    def data_for(self, world, model, d):
        """(object handed to the real call, key of its current contents in DATA)"""
        if d == "M":
            return world["__M__"], "M" + model["__M__"].fitdata
        return DATA[d], d

    def call(self, obj, method, arg, fresh=False, X=None):
        if method in ("predict", "transform", "transform_scores"):
            if X is None:
                X = DATA[arg].copy() if fresh else DATA[arg]
            self.raw = getattr(obj, method)(X)
            return H.canon_value(self.raw)
        if method == "evaluate":
            self.raw = obj.evaluate(CUTS[obj.expected_cut_entries].copy())
            return H.canon_value(self.raw)
        if method == "fitted_params":
            return H.canon_value({k: v for k, v in vars(obj).items() if k.endswith("_") and not k.startswith("_")
                                  and isinstance(v, (float, int, np.floating, np.integer))})
        if method == "fit_outcome":
            return None
        raise KeyError(method)

    # -- one transition ----------------------------------------------------------------
    def step(self, world, model, ev, path):
        """Executes ev on the real world (mutating it) and on the model (mutating it).
        Returns False if the history must not be extended (mutating call raised)."""
        acc = self.acc
        kind, name = ev[0], ev[1]
        obj = world[name]
        m = model[name]
        # the object RETURNED by the previous output-producing call, held by the caller: it must not change afterwards
        held = world.pop("__HELD__", None)
        self.raw = None
        case = {"world": self.wname, "history": [ev_json(e) for e in path + [ev]]}
        key = {"world": self.wname, "event": kind}
        names = {id(o): n for n, o in self.ests(world)}
        before = {n: params_canon(o, names) for n, o in self.ests(world)} if kind in ("fit", "fitpredict", "predict", "transform", "tscores", "update", "sfit", "eval", "evalbad", "getp") else None
        X, dkey = self.data_for(world, model, ev[2]) if kind in ("fit", "fitpredict", "predict", "transform", "tscores", "sfit") else (None, None)

        def real(f):
            try:
                return ("ok", f())
            except Exception as e:
                return ("exc", type(e).__name__)

        cont = True
        if kind in ("predict", "transform", "tscores"):
            method = {"predict": "predict", "transform": "transform", "tscores": "transform_scores"}[kind]
            got = real(lambda: self.call(obj, method, dkey, X=X))
            want = self.pristine(model, name, m.fitted, m.fitdata, method, dkey)
            if (not self.same(got, want) and m.fitted and m.fitspec is not None
                    and m.fitspec.canon(None) != self.inline(m.spec, model).canon(None)):
                alt = self.pristine(model, name, m.fitted, m.fitdata, method, dkey, spec=m.fitspec)
                if self.same(got, alt):
                    acc.count("accepted_configuration_at_last_fit_after_direct_set_params_on_nested_object")
                    want = alt
            self.compare(case, key, got, want, f"{name}.{method}({dkey})")
            self.touch_shared(model, m, dkey)
            self.outputs.add(hashlib.md5(repr(got).encode()).hexdigest())
        elif kind == "fitpredict":
            def fp():
                self.raw = obj.fit_predict(X)
                return H.canon_value(self.raw)

            got = real(fp)
            want = self.pristine(model, name, True, dkey, "predict", dkey)
            self.compare(case, key, got, want, f"{name}.fit_predict({dkey})")
            if got[0] == "ok":
                m.fitted, m.fitdata = True, dkey
                m.fitspec = self.inline(m.spec, model)
                self.touch_shared(model, m, dkey)
            else:
                cont = False
            self.outputs.add(hashlib.md5(repr(got).encode()).hexdigest())
        elif kind == "fit":
            got = real(lambda: obj.fit(X) and None)
            wantfit = real(lambda: H.build(m.spec, lambda r: model[r[1:]].spec).fit(DATA[dkey].copy()) and None)
            if got[0] != wantfit[0] or (got[0] == "exc" and got != wantfit):
                acc.violation("fit-outcome", case, f"{name}.fit({dkey}) -> {got}, pristine object -> {wantfit}", key)
            if got[0] == "ok":
                m.fitted, m.fitdata = True, dkey
                m.fitspec = self.inline(m.spec, model)
                self.touch_shared(model, m, dkey)
            else:
                cont = False
        elif kind == "update":
            ukey = ev[2]
            newdata = {"A": "A+U", "Ap": "Ap+U", "A+U": "A+U", "Ap+U": "Ap+U"}[m.fitdata] if ukey == "U" else "A+V"
            got = real(lambda: obj.update(DATA[ukey]) and None)
            if got[0] != "ok":
                acc.violation("update-raised", case, f"{name}.update({ukey}) after fit({m.fitdata}) -> {got}", key)
                cont = False
            else:
                m.fitdata = newdata
                m.fitspec = self.inline(m.spec, model)
                self.touch_shared(model, m, newdata)
                gotp = real(lambda: self.call(obj, "fitted_params", None))
                wantp = self.pristine(model, name, True, newdata, "fitted_params", None)
                self.compare(case, key, gotp, wantp, f"fitted parameters after {name}.update({ukey}) vs fit({newdata})")
        elif kind == "sfit":
            got = real(lambda: obj.fit(X) and None)
            if got[0] != "ok":
                acc.violation("scorer-fit-raised", case, f"{name}.fit({dkey}) -> {got}", key)
                cont = False
            else:
                m.fitted, m.fitdata, m.extra, m.stale = True, dkey, frozenset(), False
                mine = refs_of(m.spec, model)
                for n2, m2 in model.items():  # other wrappers of the same shared scorer are no longer in sync
                    if n2 not in (name, "__M__") and m2.role == "scorer" and (refs_of(m2.spec, model) & mine):
                        m2.stale = True
        elif kind == "eval":
            got = real(lambda: self.call(obj, "evaluate", None))
            if m.stale:
                acc.count("evaluate_on_wrapper_whose_shared_scorer_was_refitted_elsewhere_not_judged")
                self.outputs.add(hashlib.md5(repr(got).encode()).hexdigest())
                return True
            cands = ([m.fitdata] if m.fitted else []) + sorted(m.extra)
            wants = [self.pristine(model, name, True, f, "evaluate", None) for f in cands]
            if not m.fitted:  # never explicitly fitted: being unfitted is also consistent
                wants.append(self.pristine(model, name, False, None, "evaluate", None))
            if not any(self.same(got, w) for w in wants):
                acc.violation("output-differs-from-pristine", case,
                              f"{name}.evaluate(cuts) -> {self.short(got)}; pristine object fitted on {cands or 'nothing'} -> {self.short(wants[0])}",
                              key)
            self.outputs.add(hashlib.md5(repr(got).encode()).hexdigest())
        elif kind == "evalbad":
            # an evaluate call that raises half-way; its outcome is not judged (C01 / C06 do), only that it changes nothing
            got = real(lambda: obj.evaluate(BADCUT.copy()) is None)
            acc.count("failing_evaluate_calls_" + ("raised_" + got[1] if got[0] == "exc" else "returned"))
        elif kind == "set":
            pkey, val = ev[2], ev[3]
            rv = H.build(val) if isinstance(val, Spec) else copy.deepcopy(val)
            got = real(lambda: obj.set_params(**{pkey: rv}) and None)
            if got[0] != "ok":
                acc.violation("set-params-raised", case, f"{name}.set_params({pkey}=...) -> {got}", key)
                cont = False
            else:
                self.model_set(model, name, pkey, val)
        elif kind == "clone":
            got = real(lambda: obj.clone())
            if got[0] != "ok":
                acc.violation("clone-raised", case, f"{name}.clone() -> {got}", key)
                cont = False
            else:
                world[name] = got[1]
                # the clone owns copies of everything it referenced
                m.spec = self.inline(m.spec, model)
                m.fitted, m.fitdata, m.extra, m.stale, m.fitspec = False, None, frozenset(), False, None
        elif kind == "getp":
            real(lambda: obj.get_params(deep=True))
        elif kind == "mutate":
            # the CALLER overwrites its own buffer in place (same object, new contents)
            nv = "1" if m.fitdata == "0" else "0"
            world["__M__"].iloc[:, :] = DATA["M" + nv].to_numpy()
            m.fitdata = nv
            return True
        # (2) caller's data untouched
        if "__M__" in world and H.canon_value(world["__M__"]) != DATA_CANON["M" + model["__M__"].fitdata]:
            acc.violation("caller-data-modified", case, f"the caller's buffer M was modified by {kind}", key)
            world["__M__"].iloc[:, :] = DATA["M" + model["__M__"].fitdata].to_numpy()
        for dk, dv in DATA.items():
            if H.canon_value(dv) != DATA_CANON[dk]:
                acc.violation("caller-data-modified", case, f"data set {dk} was modified by {kind}", key)
                DATA.update(_mk())
        for ck, cv in CUTS.items():
            if H.canon_value(cv) != CUTS_CANON[ck]:
                acc.violation("caller-cuts-modified", case, f"cuts array was modified by {kind}", key)
                CUTS[ck] = {2: np.array([[0, 4], [1, 6]]), 3: np.array([[0, 2, 5], [1, 3, 6]]), 4: np.array([[0, 1, 4, 6], [0, 2, 4, 5]])}[ck]
        # (3) hyper-parameters untouched by fit / predict / evaluate, and equal to the model's
        names = {id(o): n for n, o in self.ests(world)}
        if before is not None:
            for n, o in self.ests(world):
                if params_canon(o, names) != before[n]:
                    acc.violation("hyperparameters-modified", case, f"get_params() of {n} changed by {kind}", key)
        res = lambda ref: model[ref[1:]].spec  # noqa: E731
        for n, o in self.ests(world):
            if params_canon(o, names) != model[n].spec.canon(res):
                acc.violation("params-vs-model", case, f"{n}.get_params() = {params_canon(o, names)} but the history implies {model[n].spec.canon(res)}", key)
        # (4) a result the caller still holds does not change through later calls
        if held is not None:
            now = real(lambda: H.canon_value(held[0]))
            if now != ("ok", held[1]):
                acc.violation("held-result-changed", case, f"the object returned by {held[2]} changed while the caller held it: "
                              f"{self.short(held[1])} -> {self.short(now)} after {kind} on {name}", key)
            acc.count("held_results_rechecked")
        if self.raw is not None and got[0] == "ok":
            world["__HELD__"] = (self.raw, got[1], f"{name}.{kind}")
        self.raw = None
        return cont

    def same(self, a, b):
        return a == b or (a[0] == b[0] == "ok" and H.close_canon(a[1], b[1]))

    def short(self, o):
        s = repr(o)
        return s if len(s) < 300 else s[:300] + "..."

    def compare(self, case, key, got, want, what):
        if not self.same(got, want):
            self.acc.violation("output-differs-from-pristine", case,
                               f"{what}: history gives {self.short(got)}; freshly constructed object fitted the same way gives {self.short(want)}", key)

    def touch_shared(self, model, m, d):
        mine = refs_of(m.spec, model)
        for n2, m2 in model.items():
            if m2 is not m and n2 != "__M__" and m2.role == "scorer" and n2 not in mine and (refs_of(m2.spec, model) & mine):
                m2.stale = True
        for r in refs_of(m.spec, model):
            model[r].extra = model[r].extra | {d}

    def inline(self, spec, model):
        s = Spec(spec.cls)
        for k, v in spec.params.items():
            if isinstance(v, Spec):
                s.params[k] = self.inline(v, model)
            elif isinstance(v, str) and v.startswith("@"):
                s.params[k] = self.inline(model[v[1:]].spec, model)
            else:
                s.params[k] = v
        return s

    def model_set(self, model, name, pkey, val):
        m = model[name]
        m.fitted, m.fitdata, m.extra, m.stale, m.fitspec = False, None, frozenset(), False, None
        head, _, rest = pkey.partition("__")
        if not rest:
            m.spec.params[head] = val.copy() if isinstance(val, Spec) else val
            return
        target = m.spec.params[head]
        if isinstance(target, str) and target.startswith("@"):
            self.model_set(model, target[1:], rest, val)
        else:
            # nested anonymous object: edit its spec in place
            h2, _, r2 = rest.partition("__")
            t = target
            while r2:
                t = t.params[h2]
                h2, _, r2 = r2.partition("__")
            t.params[h2] = val.copy() if isinstance(val, Spec) else val

    def enabled(self, ev, model):
        kind, name = ev[0], ev[1]
        if kind == "mutate":
            return True
        m = model[name]
        if kind == "update":
            if ev[2] == "V":
                return m.fitted and m.fitdata in ("A", "A+V")
            return m.fitted and m.fitdata in ("A", "Ap", "A+U", "Ap+U")
        if kind == "evalbad":
            return m.fitted and m.fitdata == "D" and not m.stale
        if kind == "set":
            pkey, val = ev[2], ev[3]
            if len(ev) > 4:
                parent = self.lookup(model, name, pkey.rpartition("__")[0])
                if not isinstance(parent, Spec) or parent.cls != ev[4]:
                    return False
            # only offered when it changes the specification (keeps the space finite and non-trivial)
            cur = self.lookup(model, name, pkey)
            if cur is _MISSING:
                return False
            new = val.canon() if isinstance(val, Spec) else repr(val)
            old = cur.canon(lambda r: model[r[1:]].spec) if isinstance(cur, Spec) else repr(cur)
            if isinstance(val, Spec) and isinstance(cur, Spec) and cur.cls == val.cls:
                return False
            return new != old
        return True

    def lookup(self, model, name, pkey):
        spec = model[name].spec
        parts = pkey.split("__")
        for i, p_ in enumerate(parts):
            if p_ not in spec.params:
                return _MISSING
            v = spec.params[p_]
            if i == len(parts) - 1:
                if isinstance(v, str) and v.startswith("@"):
                    return model[v[1:]].spec
                return v
            if isinstance(v, str) and v.startswith("@"):
                spec = model[v[1:]].spec
            elif isinstance(v, Spec):
                spec = v
            else:
                return _MISSING
        return _MISSING

    # -- search ---------------------------------------------------------------------------
    def state_key(self, world, model):
        c = H.ObjCanon()
        for n in sorted(world):
            if n == "__HELD__":  # observational only: not part of the state
                continue
            c.feed("name", n)
            c.walk(world[n])  # includes the caller's mutable buffer "__M__" (a DataFrame) where present
        return (c.digest(), model_canon(model), self.gcur)

    def held_chain(self, world, model, path, events, gsnap, gdig):
        """Held-result rule.  The BFS copies the world before every event, and a copy separates a returned array / frame
        from the internal buffer it may be a view of; so for every expanded state and every fitted detector one chain of
        output-producing events is executed WITHOUT intermediate copies (on one copy of the world, discarded afterwards):
        predict(d0), predict(d1), transform_scores(d1), predict(d0), transform(d0), predict(d1).  step() re-examines, after
        each event, the object returned by the previous one."""
        data = self.cfg["data"]
        if len(data) < 2:
            return
        menu = set(events)
        for name, m in model.items():
            if m.role != "det" or not m.fitted:
                continue
            chain = [("predict", name, data[0]), ("predict", name, data[1]), ("tscores", name, data[1]), ("predict", name, data[0]),
                     ("transform", name, data[0]), ("predict", name, data[1])]
            if any(e not in menu or not self.enabled(e, model) for e in chain):
                continue
            w3 = copy.deepcopy(world, {id(v): v for v in DATA.values()})
            m3 = {n: mm.copy() for n, mm in model.items()}
            if self.gcur != gdig:
                self.G.restore(gsnap)
                self.gcur = gdig
            p3 = list(path)
            try:
                with core.case_timer():
                    for e in chain:
                        if not self.step(w3, m3, e, p3):
                            break
                        p3.append(e)
            except core.CaseTimeout:
                pass
            self.gcur = self.G.digest()
            self.acc.count("held_result_chains")

    def initial(self):
        objs = self.make()
        names = {id(o): n for n, o in objs.items()}
        model = {n: MObj(spec_from_obj(o, names), "det" if is_detector(o) else "scorer") for n, o in objs.items()}
        if self.cfg.get("mutable"):
            objs["__M__"] = DATA["M0"].copy()
            model["__M__"] = MObj(Spec("__M__"), "data")
            model["__M__"].fitdata = "0"
        return objs, model

    def run(self):
        acc = self.acc
        objs, model = self.initial()
        events = events_for(objs, self.cfg)
        init = (objs, model, [], self.g0, self.g0d)
        seen = {self.state_key(objs, model)}
        frontier = collections.deque([init])
        fitted_states = 0
        maxdepth = 0
        per_depth = collections.Counter()
        while frontier:
            world, model, path, gsnap, gdig = frontier.popleft()
            if len(path) >= self.depth:
                continue
            self.held_chain(world, model, path, events, gsnap, gdig)
            for ev in events:
                if not self.enabled(ev, model):
                    continue
                # the caller's constant data sets keep their IDENTITY across states (an object that remembers the
                # data object it was fitted on must see the very same object again, as a real caller would pass it)
                w2 = copy.deepcopy(world, {id(v): v for v in DATA.values()})
                m2 = {n: m.copy() for n, m in model.items()}
                if self.gcur != gdig:
                    self.G.restore(gsnap)
                    self.gcur = gdig
                try:
                    with core.case_timer():
                        cont = self.step(w2, m2, ev, path)
                except core.CaseTimeout:
                    acc.violation("timeout", {"world": self.wname, "history": [ev_json(e) for e in path + [ev]]}, "call did not return",
                                  {"world": self.wname})
                    cont = False
                d = self.G.digest()
                if d != self.gcur:
                    self.gcur = d
                gs2 = gsnap if d == gdig else self.G.snapshot()
                acc.transitions += 1
                acc.ev()
                if not cont:
                    acc.count("histories_not_extended_after_raising_call")
                    continue
                k = self.state_key(w2, m2)
                if k not in seen:
                    seen.add(k)
                    frontier.append((w2, m2, path + [ev], gs2, d))
                    per_depth[len(path) + 1] += 1
                    maxdepth = max(maxdepth, len(path) + 1)
                    if any(m.fitted for n3, m in m2.items() if n3 != "__M__"):
                        fitted_states += 1
                    if len(acc.samples) < 2 and len(path) + 1 == min(self.depth, 3):
                        acc.sample({"world": self.wname, "history": [ev_json(e) for e in path + [ev]]})
        acc.states += len(seen)
        acc.nt(fitted_states)
        acc.extra.setdefault("per_world", {})[self.wname] = {
            "states": len(seen), "depth_bound": self.depth, "max_depth_reached": maxdepth, "events": len(events),
            "states_per_depth": dict(per_depth), "distinct_outputs": len(self.outputs), "pristine_references": len(self.memo)}
        for o in self.outputs:
            acc.outcomes[o] += 1


_MISSING = object()


BIG = ("shared-cost", "sta", "saving-shared", "mw-cbs-shared", "sta-mw", "two-pelt-cov", "two-pelt", "two-mw", "two-sbs", "two-cbs", "two-capa", "cov-cost-shared")


def depth_for(wname, tier):
    deep = worlds()[wname][1].get("deep", False)
    own = worlds()[wname][1].get("depth")
    if own:
        return own[0] if tier == "quick" else own[1]
    if tier == "quick":
        return 3 if wname in BIG else 4
    return 6 if deep else (4 if wname in BIG else 5)


def shards(tier, seed):
    ws = list(worlds())
    # biggest worlds first
    order = ["shared-cost", "saving-shared", "mw-cbs-shared", "sta", "sta-mw", "capa-shared", "cbs", "capa", "mvcapa", "sbs-tuned", "pelt", "mw"]
    ws.sort(key=lambda w: order.index(w) if w in order else 99)
    return [(w, depth_for(w, tier)) for w in ws]


def bounds(tier, seed):
    return {"worlds": {w: {"depth": depth_for(w, tier)} for w in worlds()},
            "datasets": {k: list(v.shape) for k, v in DATA.items()},
            "events": "per detector: fit/predict on each data set, fit_predict on two, transform, transform_scores, update(U), clone, get_params; per scorer: fit on each data set, evaluate(fixed valid cuts), clone (stand-alone), get_params; set_params menu per world incl. nested keys and scorer replacement"}


def run_shard(shard):
    wname, depth = shard
    acc = core.Acc()
    Explorer(wname, depth, acc).run()
    return acc


def finalize(acc, tier, seed):
    acc.extra["traces_validated"] = int(acc.transitions)


def replay(case):
    """Re-executes one recorded history from the initial state of its world."""
    acc = core.Acc()
    wname = case["world"]
    ex = Explorer(wname, 99, acc)
    objs, model = ex.initial()
    events = events_for(objs, ex.cfg)
    import json

    table = {json.dumps(core.jsonable(ev_json(e))): e for e in events}
    path = []
    for ej in case["history"]:
        ev = table[json.dumps(ej)]
        if not ex.step(objs, model, ev, path):
            break
        path.append(ev)
    return acc.violations
