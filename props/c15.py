"""C15 -- thresholds and penalties follow their documented formulas and act monotonically."""

from __future__ import annotations

import itertools
import math

import numpy as np
import pandas as pd

from smc import core, util

ID = "C15"
LEVEL = "exploration"
RULE = (
    "families: 'fitted' = every (detector, n, p, scale, extra) of the grid: fitted threshold_/penalty_ vs the closed form "
    "(PELT, SBS, CAPA) or scale x the detector's published default function (MW, CBS), and proportionality in the scale; "
    "'families' = every (n, p, k, scale) of the grid for the four MVCAPA penalty families; 'tuned' = every series over "
    "the alphabet x level x detector with threshold_scale=None (quantile bracket + exceedance count on the training "
    "scores); 'mono' = every series x every ordered pair of 6 PELT penalty scales. Non-trivial = scale > 0 (fitted, "
    "families), at least two distinct training scores (tuned), the smaller penalty yields a changepoint (mono)."
)
ASSUMPTIONS = [
    "closed forms compared with 1e-9 relative tolerance",
    "tuned threshold: with m training scores sorted s(0)<=...<=s(m-1) the threshold must lie in [s(floor((1-level)(m-1))), s(min(m-1, ceil((1-level)m)))] and at most ceil(level*m) scores may exceed it (granularity of the sample; the interpolation rule is not prescribed)",
    "CAPA's point penalty has no closed form in the statement: only proportionality to its scale is checked",
    "k = parameters per segment = collective_saving.get_param_size(p)",
    "the documented thresholds / penalties of PELT, seeded and circular binary segmentation and the moving window do not depend on the scorer: they are also fitted with Gaussian costs (more parameters per variable)",
]

NS = list(range(2, 65)) + [100, 1000, 100000]
SCALES = (0.0, 0.5, 1.0, 2.0, 3.7)


def close(a, b):
    return util.close(a, b, 1e-9)


def check_fitted(acc, det, n, p, scale, extra):
    import skchange.anomaly_detectors as ad
    import skchange.change_detectors as cd
    from skchange.anomaly_scores import Saving
    from skchange.costs import GaussianVarCost, L2Cost

    acc.ev()
    case = {"fam": "fitted", "det": det, "n": n, "p": p, "scale": scale, "extra": extra}
    key = {"fam": "fitted", "det": det}
    # non-degenerate data: a fixed-scale threshold must not depend on the values (all-zero data would hide a
    # threshold that is silently tuned on the data)
    X = pd.DataFrame(((np.arange(n).reshape(-1, 1) * 7 + 3 * np.arange(p)) % 5).astype(float) + (np.arange(n).reshape(-1, 1) >= n // 2) * 6.0)
    logn = math.log(n)
    try:
        from skchange.costs import GaussianCovCost

        if det == "PELT":
            # the documented penalty does not depend on the cost: default L2, and costs with more parameters per variable
            mk = {None: lambda: None, "GV": lambda: GaussianVarCost(), "Cov": lambda: GaussianCovCost()}[extra]
            msl = 1 if extra is None else (2 if extra == "GV" else p + 1)
            if n < 2 * msl:
                return
            d = cd.PELT(mk(), penalty_scale=scale, min_segment_length=msl).fit(X)
            got, want = d.penalty_, scale * 2 * p * logn
            d2 = cd.PELT(mk(), penalty_scale=2 * scale, min_segment_length=msl).fit(X).penalty_
        elif det == "SBS-GV":
            if n < 4:
                return
            d = cd.SeededBinarySegmentation(GaussianVarCost(), threshold_scale=scale, min_segment_length=2, max_interval_length=max(4, extra)).fit(X)
            got, want = d.threshold_, scale * 2 * p * math.sqrt(logn)
            d2 = cd.SeededBinarySegmentation(GaussianVarCost(), threshold_scale=2 * scale, min_segment_length=2, max_interval_length=max(4, extra)).fit(X).threshold_
        elif det == "MW-GV":
            b = max(2, extra)
            if n < 2 * b:
                return
            d = cd.MovingWindow(GaussianVarCost(), bandwidth=b, threshold_scale=scale, level=0.05).fit(X)
            got, want = d.threshold_, scale * cd.MovingWindow.get_default_threshold(n, p, b, 0.05)
            d2 = cd.MovingWindow(GaussianVarCost(), bandwidth=b, threshold_scale=2 * scale, level=0.05).fit(X).threshold_
        elif det == "CBS-GV":
            if n < 4:
                return
            M = max(4, extra)
            d = ad.CircularBinarySegmentation(GaussianVarCost(), threshold_scale=scale, min_segment_length=2, max_interval_length=M).fit(X)
            got, want = d.threshold_, scale * ad.CircularBinarySegmentation.get_default_threshold(n, p, M)
            d2 = ad.CircularBinarySegmentation(GaussianVarCost(), threshold_scale=2 * scale, min_segment_length=2, max_interval_length=M).fit(X).threshold_
        elif det == "SBS":
            d = cd.SeededBinarySegmentation(threshold_scale=scale, min_segment_length=1, max_interval_length=max(2, extra)).fit(X)
            got, want = d.threshold_, scale * 2 * p * math.sqrt(logn)
            d2 = cd.SeededBinarySegmentation(threshold_scale=2 * scale, min_segment_length=1, max_interval_length=max(2, extra)).fit(X).threshold_
        elif det == "CAPA":
            sav = {1: None, 2: Saving(GaussianVarCost(param=(0.0, 1.0)))}[extra]
            d = ad.CAPA(collective_saving=sav, collective_penalty_scale=scale, point_penalty_scale=scale, min_segment_length=2).fit(X)
            k = extra * p
            got, want = d.collective_penalty_, scale * (k + 2 * math.sqrt(k * logn) + 2 * logn)
            dd = ad.CAPA(collective_saving={1: None, 2: Saving(GaussianVarCost(param=(0.0, 1.0)))}[extra],
                         collective_penalty_scale=2 * scale, point_penalty_scale=2 * scale, min_segment_length=2).fit(X)
            d2 = dd.collective_penalty_
            if not close(dd.point_penalty_, 2 * d.point_penalty_) or d.point_penalty_ < 0:
                acc.violation("penalty-not-proportional", case, f"CAPA point_penalty_ {d.point_penalty_!r} at scale {scale}, {dd.point_penalty_!r} at {2*scale}", key)
        elif det == "MW":
            b = extra
            lvl = 0.01 if (n + p) % 2 else 0.2
            d = cd.MovingWindow(bandwidth=b, threshold_scale=scale, level=lvl).fit(X)
            got, want = d.threshold_, scale * cd.MovingWindow.get_default_threshold(n, p, b, lvl)
            d2 = cd.MovingWindow(bandwidth=b, threshold_scale=2 * scale, level=lvl).fit(X).threshold_
        elif det == "CBS":
            M = extra
            d = ad.CircularBinarySegmentation(threshold_scale=scale, min_segment_length=1, max_interval_length=M).fit(X)
            got, want = d.threshold_, scale * ad.CircularBinarySegmentation.get_default_threshold(n, p, M)
            d2 = ad.CircularBinarySegmentation(threshold_scale=2 * scale, min_segment_length=1, max_interval_length=M).fit(X).threshold_
        if not close(got, want):
            acc.violation("fitted-formula", case, f"{det}: fitted value {got!r}, documented formula gives {want!r}", key, expected=want, observed=got)
        if not close(d2, 2 * got):
            acc.violation("fitted-not-proportional", case, f"{det}: {got!r} at scale {scale} but {d2!r} at scale {2*scale}", key)
        if scale > 0:
            acc.nt()
        acc.outcome(det)
    except Exception as e:
        acc.violation("raised", case, f"{type(e).__name__}: {e}", dict(key, exc=type(e).__name__))


def check_family(acc, n, p, k, scale):
    import skchange.anomaly_detectors.mvcapa as mv

    acc.ev()
    case = {"fam": "families", "n": n, "p": p, "k": k, "scale": scale}
    key = {"fam": "families"}
    logn = math.log(n)
    try:
        fams = {"dense": mv.dense_mvcapa_penalty, "sparse": mv.sparse_mvcapa_penalty, "combined": mv.combined_mvcapa_penalty}
        if p >= 2:
            fams["intermediate"] = mv.intermediate_mvcapa_penalty
        res = {}
        for name, f in fams.items():
            a, b = f(n, p, k, scale)
            a = float(a)
            b = np.asarray(b, dtype=float)
            k2 = dict(key, family=name)
            if b.shape != (p,):
                acc.violation("family-shape", case, f"{name}: per-component penalties have shape {b.shape}, expected ({p},)", k2)
                continue
            if a < -1e-12 or np.any(b < -1e-9 * max(1.0, np.abs(b).max())):
                acc.violation("family-negative", case, f"{name}: alpha={a!r}, betas={b.tolist()} (negative => decreasing in the number of components)", k2)
            a2, b2 = f(n, p, k, 2 * scale)
            if not close(a2, 2 * a) or not all(close(x, 2 * y) for x, y in zip(np.asarray(b2, dtype=float), b)):
                acc.violation("family-not-proportional", case, f"{name}: not proportional to the scale ({a!r},{b.tolist()}) vs ({a2!r},{list(b2)})", k2)
            res[name] = a + np.cumsum(b)
            # default arguments mean k=1, scale=1
            if k == 1 and scale == 1.0:
                a3, b3 = f(n, p)
                if not close(a3, a) or not all(close(x, y) for x, y in zip(np.asarray(b3, dtype=float), b)):
                    acc.violation("family-defaults", case, f"{name}: defaults differ from (k=1, scale=1)", k2)
        a, b = mv.dense_mvcapa_penalty(n, p, k, scale)
        kk = p * k
        want = scale * (kk + 2 * math.sqrt(kk * logn) + 2 * logn)
        if not close(a, want) or np.any(np.asarray(b) != 0):
            acc.violation("dense-formula", case, f"dense: alpha={a!r}, betas={list(b)}; CAPA penalty for {kk} parameters is {want!r}", dict(key, family="dense"))
        if not close(mv.capa_penalty(n, kk, scale), want):
            acc.violation("capa-penalty-formula", case, f"capa_penalty({n},{kk},{scale}) = {mv.capa_penalty(n, kk, scale)!r}, formula {want!r}", dict(key, family="capa"))
        a, b = mv.sparse_mvcapa_penalty(n, p, k, scale)
        wa, wb = scale * 2 * logn, scale * 2 * math.log(k * p)
        if not close(a, wa) or not all(close(x, wb) for x in b):
            acc.violation("sparse-formula", case, f"sparse: alpha={a!r}, betas={list(b)}; documented {wa!r} + {wb!r} per component", dict(key, family="sparse"))
        if p >= 2:
            want = np.minimum(res["dense"], np.minimum(res["sparse"], res["intermediate"]))
            if "combined" in res and not all(close(x, y) for x, y in zip(res["combined"], want)):
                acc.violation("combined-not-pointwise-min", case,
                              f"combined cumulative penalties {res['combined'].tolist()} != pointwise minimum {want.tolist()} of dense/sparse/intermediate", dict(key, family="combined"))
        else:
            if "combined" in res and not all(close(x, y) for x, y in zip(res["combined"], res["dense"])):
                acc.violation("combined-p1", case, f"combined for p=1 {res['combined'].tolist()} != dense {res['dense'].tolist()}", dict(key, family="combined"))
        if scale > 0:
            acc.nt()
        acc.outcome("families")
    except Exception as e:
        acc.violation("raised", case, f"{type(e).__name__}: {e}", dict(key, exc=type(e).__name__))


def check_tuned(acc, det, xs, level):
    import skchange.anomaly_detectors as ad
    import skchange.change_detectors as cd
    from skchange.costs import L2Cost

    acc.ev()
    case = {"fam": "tuned", "det": det, "x": list(xs), "level": level}
    key = {"fam": "tuned", "det": det}
    X = pd.DataFrame({"a": np.array(xs, dtype=float)})
    n = len(xs)
    try:
        if det == "SBS":
            d = cd.SeededBinarySegmentation(threshold_scale=None, level=level, min_segment_length=1, max_interval_length=n).fit(X)
            d.predict(X)
            sc = np.asarray(d.scores["score"], dtype=float)
        elif det == "MW":
            d = cd.MovingWindow(bandwidth=2 if n >= 4 else 1, threshold_scale=None, level=level).fit(X)
            sc = np.asarray(d.transform_scores(X), dtype=float)
        else:
            d = ad.CircularBinarySegmentation(L2Cost(), threshold_scale=None, level=level, min_segment_length=1, max_interval_length=n).fit(X)
            d.predict(X)
            sc = np.asarray(d.scores["score"], dtype=float)
        thr = float(d.threshold_)
        s = np.sort(sc)
        m = len(s)
        q = 1.0 - level
        lo = s[int(math.floor(q * (m - 1) + 1e-12))]
        hi = s[min(m - 1, int(math.ceil(q * m - 1e-12)))]
        tol = 1e-9 * max(1.0, abs(hi))
        if not (lo - tol <= thr <= hi + tol):
            acc.violation("tuned-quantile-bracket", case,
                          f"{det}: tuned threshold {thr!r} outside [{lo!r}, {hi!r}] = bracket of the {q}-quantile of {m} training scores", key)
        exceed = int(np.sum(sc > thr + tol))
        if exceed > math.ceil(level * m - 1e-12):
            acc.violation("tuned-exceedance", case, f"{det}: {exceed} of {m} training scores exceed the tuned threshold, more than ceil({level}*{m})", key)
        if len(set(np.round(sc, 9))) > 1:
            acc.nt()
        acc.outcome(f"{det}:exceed={min(exceed, 4)}")
    except Exception as e:
        acc.violation("raised", case, f"{type(e).__name__}: {e}", dict(key, exc=type(e).__name__))


MONO_SCALES = (0.0, 0.02, 0.1, 0.3, 1.0, 3.0)


def check_mono(acc, xs, cost):
    import skchange.change_detectors as cd
    from skchange.costs import GaussianVarCost, L2Cost

    X = pd.DataFrame({"a": np.array(xs, dtype=float)})
    key = {"fam": "mono"}
    ks = []
    try:
        for s in MONO_SCALES:
            c = L2Cost() if cost == "L2" else GaussianVarCost()
            d = cd.PELT(c, penalty_scale=s, min_segment_length=1 if cost == "L2" else 2).fit(X)
            ks.append(len(d.predict(X)))
    except Exception as e:
        acc.ev()
        acc.violation("raised", {"fam": "mono", "x": list(xs), "cost": cost}, f"{type(e).__name__}: {e}", dict(key, exc=type(e).__name__))
        return
    for (i, a), (j, b) in itertools.combinations(enumerate(ks), 2):
        acc.ev()
        if b > a:
            acc.violation("pelt-penalty-monotonicity", {"fam": "mono", "x": list(xs), "cost": cost, "scales": [MONO_SCALES[i], MONO_SCALES[j]]},
                          f"PELT reports {a} changepoints at penalty scale {MONO_SCALES[i]} but {b} at the larger scale {MONO_SCALES[j]}", key)
        if a > 0:
            acc.nt()
    acc.outcome(f"mono:{ks[0]}->{ks[-1]}")


# -------------------------------------------------------------------------------------


def fitted_cases(tier):
    ns = [n for n in NS if n <= (1000 if tier == "quick" else 100000)]
    for n in ns:
        for p in range(1, 7):
            if n * p > 6000:
                continue
            for scale in SCALES:
                yield ("PELT", n, p, scale, None)
                if n <= 40 and scale in (0.0, 1.0, 3.7):
                    yield ("PELT", n, p, scale, "GV")
                    if p <= 3:
                        yield ("PELT", n, p, scale, "Cov")
                    yield ("SBS-GV", n, p, scale, 7)
                    yield ("MW-GV", n, p, scale, 2)
                    yield ("CBS-GV", n, p, scale, 7)
                for M in (2, 7, 200):
                    yield ("SBS", n, p, scale, M)
                    yield ("CBS", n, p, scale, M)
                for k in (1, 2):
                    yield ("CAPA", n, p, scale, k)
                for b in (1, 2, 5):
                    if n >= 2 * b:
                        yield ("MW", n, p, scale, b)


def family_cases(tier):
    for n in NS:
        for p in range(1, 7):
            for k in (1, 2, 3):
                for scale in SCALES:
                    yield (n, p, k, scale)


def series_cases(tier, seed):
    a, b = util.seed_affine(seed)
    top = 7 if tier == "quick" else 8
    for alph in ((0, 1, 3), tuple(a + b * x for x in (0, 1, 3))):
        for n in range(2, top + 1):
            for xs in itertools.product(alph, repeat=n):
                yield xs


def shards(tier, seed):
    sh = [("fitted", tier, i, 24) for i in range(24)] + [("families", tier, i, 8) for i in range(8)]
    sh += [("tuned", tier, seed, i, 32) for i in range(32)] + [("mono", tier, seed, i, 32) for i in range(32)]
    return sh


def bounds(tier, seed):
    return {"n": "2..64, 100, 1000 (and 100000 for the penalty families / thorough)", "p": "1..6", "scales": list(SCALES), "k": [1, 2, 3],
            "bandwidths": [1, 2, 5], "max_interval_lengths": [2, 7, 200], "levels": [0.01, 0.1, 0.5],
            "series": "all series over (0,1,3) and its seed-affine image, n<=7 (quick) / 8", "pelt_scales": list(MONO_SCALES)}


def run_shard(shard):
    acc = core.Acc()
    fam = shard[0]
    if fam == "fitted":
        _, tier, i, k = shard
        for j, c in enumerate(fitted_cases(tier)):
            if j % k == i:
                check_fitted(acc, *c)
                acc.sample({"fam": "fitted", "case": list(c)}, limit=1)
    elif fam == "families":
        _, tier, i, k = shard
        for j, c in enumerate(family_cases(tier)):
            if j % k == i:
                check_family(acc, *c)
                acc.sample({"fam": "families", "case": list(c)}, limit=1)
    elif fam == "tuned":
        _, tier, seed, i, k = shard
        for j, xs in enumerate(series_cases(tier, seed)):
            if j % k == i:
                for det in ("SBS", "MW", "CBS"):
                    for level in (0.01, 0.1, 0.5):
                        check_tuned(acc, det, xs, level)
                acc.sample({"fam": "tuned", "x": list(xs)}, limit=1)
    else:
        _, tier, seed, i, k = shard
        for j, xs in enumerate(series_cases(tier, seed)):
            if j % k == i:
                check_mono(acc, xs, "L2")
                if len(xs) >= 4:
                    check_mono(acc, xs, "GV")
    return acc


def replay(case):
    acc = core.Acc()
    fam = case["fam"]
    if fam == "fitted":
        check_fitted(acc, case["det"], case["n"], case["p"], case["scale"], case["extra"])
    elif fam == "families":
        check_family(acc, case["n"], case["p"], case["k"], case["scale"])
    elif fam == "tuned":
        check_tuned(acc, case["det"], tuple(case["x"]), case["level"])
    else:
        check_mono(acc, tuple(case["x"]), case["cost"])
    return acc.violations
