"""C07 -- seeded binary segmentation reports exactly the greedy above-threshold splits.

Mode B with user-defined TableChangeScore / EncodingChangeScore through the real
SeededBinarySegmentation; Mode A with built-in scores on every small-alphabet series.
The greedy part is decided by refinement against a *nondeterministic* specification
(every tie-break explored; the implementation's output must be one of the outputs the
specification can produce), evaluated on the intervals / scores / maximisers the
detector itself reports plus its read-back threshold.
"""

from __future__ import annotations

import itertools

import numpy as np
import pandas as pd

from smc import core, refmodels, util
from smc.envs import EncodingChangeScore, TableChangeScore

ID = "C07"
LEVEL = "model_checking"
RULE = (
    "one case = (n, p, msl, max_interval_length, growth_factor, threshold, score table or data series). "
    "Families: (i) interval grid with an encoding score; (ii) per-interval maximisation: every table over "
    "one interval's admissible splits with values {0,1,2}; (iii) greedy selection: every assignment of "
    "(level in {0, =thr, 2thr, 3thr}, argmax split) to the distinct intervals of small configurations, and "
    "all <=2-interval deviations for larger n; (iv) all series over small alphabets with built-in scores. "
    "states/transitions = states and transitions of the nondeterministic greedy specification explored "
    "completely per case; every case is one execution of the implementation checked for membership. "
    "Non-trivial = at least one changepoint reported, or a tie between two above-threshold intervals."
)
ASSUMPTIONS = [
    "numba not installed: kernels run as plain Python/NumPy",
    "interval 'contains' a changepoint c iff start <= c < end (the interval's own samples include index c)",
    "the candidate intervals are read from the detector's public `scores` table; their construction is checked only against the statement's constraints (inside [0,n], length in [2*msl, min(M,n)], non-empty)",
    "Mode A row maxima are compared with a fresh instance of the same scorer class (scorer correctness is C01/C06)",
]

LEVELS = (0.0, 1.0, 2.0, 3.0)  # multiples of the read-back threshold


def sbs(n, p, msl, M, growth, scorer, thr_scale, X=None, level=None, fit_rows=None):
    from skchange.change_detectors import SeededBinarySegmentation as SBS

    kw = {}
    if level is not None:
        kw["level"] = level
    det = SBS(scorer, threshold_scale=thr_scale, min_segment_length=msl, max_interval_length=M,
              growth_factor=growth, **kw)
    if X is None:
        X = pd.DataFrame(np.zeros((n, p)))
    det.fit(X if not fit_rows else X.iloc[:fit_rows])
    y = det.predict(X)
    core.emit("SeededBinarySegmentation", y, n=len(X), p=X.shape[1], msl=msl)
    cpts = [int(c) for c in y["ilocs"]]
    sc = det.scores
    rows = [(int(a), int(b), int(c), float(d)) for a, b, c, d in
            zip(sc["start"], sc["end"], sc["argmax_cpt"], sc["score"])]
    return cpts, rows, float(det.threshold_), det


def check_intervals(acc, case, key, rows, n, msl, M):
    if len(rows) == 0:
        acc.violation("sbs-no-intervals", case, f"no candidate interval although n={n} >= 2*msl={2*msl}", key)
        return False
    for s, e, k, v in rows:
        if not (0 <= s < e <= n) or not (2 * msl <= e - s <= min(M, n)):
            acc.violation("sbs-bad-interval", case,
                          f"candidate interval [{s},{e}) violates inside-[0,{n}] / length in [{2*msl},{min(M,n)}]", key)
            return False
    return True


def check_rows(acc, case, key, rows, msl, agg, tol=util.TOL):
    """agg(s, e) -> list of (k, summed score) over admissible splits."""
    for s, e, k, v in rows:
        vals = agg(s, e)
        mx = max(x for _, x in vals)
        if not util.close(v, mx, tol):
            acc.violation("sbs-row-max", case, f"interval [{s},{e}) reports score {v!r}, maximum over admissible splits is {mx!r}", key)
            return False
        d = dict(vals)
        if k not in d or not util.close(d[k], mx, tol):
            acc.violation("sbs-row-argmax", case, f"interval [{s},{e}) reports maximiser {k}, not an argmax (values {vals})", key)
            return False
    return True


def check_greedy(acc, case, key, rows, cpts, thr):
    starts = [r[0] for r in rows]
    ends = [r[1] for r in rows]
    picks = [r[2] for r in rows]
    scores = [r[3] for r in rows]
    outs, st, tr = refmodels.greedy_spec_outcomes(
        scores, picks, starts, ends, thr, lambda pk, j: starts[j] <= pk < ends[j])
    acc.states += st
    acc.transitions += tr
    acc.count("impl_traces_checked")
    ok = True
    if sorted(cpts) != list(cpts) or len(set(cpts)) != len(cpts):
        acc.violation("sbs-cpts-not-sorted-unique", case, f"changepoints {cpts}", key)
        ok = False
    elif tuple(cpts) not in outs:
        acc.violation("sbs-greedy-refinement", case,
                      f"reported changepoints {cpts} are not an output of the greedy specification; allowed: {sorted(outs)[:6]} (threshold {thr!r})",
                      key, expected=sorted(outs)[:6], observed=cpts)
        ok = False
    # derived claims, checked directly
    above = [i for i in range(len(rows)) if scores[i] > thr]
    for c in cpts:
        if not any(picks[i] == c for i in above):
            acc.violation("sbs-unsupported-changepoint", case, f"changepoint {c} is not the maximiser of any above-threshold interval", key)
            ok = False
            break
    for i in above:
        if not any(starts[i] <= c < ends[i] for c in cpts):
            acc.violation("sbs-uncovered-interval", case, f"above-threshold interval [{starts[i]},{ends[i]}) has no changepoint inside; cpts={cpts}", key)
            ok = False
            break
    if len(outs) > 1:
        acc.count("cases_with_tie_nondeterminism")
    return ok, len(outs)


def table_agg(T, msl):
    def agg(s, e):
        return [(k, float(T[s, k, e, :].sum())) for k in range(s + msl, e - msl + 1)]
    return agg


# -------------------------------------------------------------------------------------
_IV_CACHE = {}


def impl_intervals(n, msl, M, growth):
    """Distinct candidate intervals as reported by the implementation (used only to
    shape the exploration; what they must satisfy is checked separately)."""
    key = (n, msl, M, growth)
    if key not in _IV_CACHE:
        try:
            _, rows, _, _ = sbs(n, 1, msl, M, growth, TableChangeScore(np.zeros((n + 1,) * 3 + (1,))), 1.0)
            _IV_CACHE[key] = sorted({(r[0], r[1]) for r in rows})
        except Exception:
            _IV_CACHE[key] = []
    return _IV_CACHE[key]


def splits_of(s, e, msl):
    return list(range(s + msl, e - msl + 1))


def some_splits(s, e, msl):
    sp = splits_of(s, e, msl)
    if len(sp) <= 3:
        return sp
    return sorted({sp[0], sp[len(sp) // 2], sp[-1]})


def check_case(acc, case):
    acc.ev()
    acc.sample(case)
    fam = case["fam"]
    key = {"fam": fam}
    try:
        with core.case_timer(case.get("timeout", core.CASE_TIMEOUT_S)):
            n, p, msl, M, g = case["n"], case.get("p", 1), case["msl"], case["M"], case["growth"]
            if fam == "grid":
                sc = EncodingChangeScore(base=64)
                cpts, rows, thr, det = sbs(n, 1, msl, M, g, sc, 0.0)
                if not check_intervals(acc, case, key, rows, n, msl, M):
                    return
                # which splits were evaluated for each interval
                seen = {}
                for cuts in sc.log:
                    for s, k, e in cuts:
                        seen.setdefault((int(s), int(e)), set()).add(int(k))
                for s, e, k, v in rows:
                    want = set(splits_of(s, e, msl))
                    if seen.get((s, e), set()) != want:
                        acc.violation("sbs-splits-evaluated", case,
                                      f"interval [{s},{e}): evaluated splits {sorted(seen.get((s, e), []))}, admissible {sorted(want)}", key)
                        return
                agg = lambda s, e: [(k, float(1 + s + 64 * k + 64 * 64 * e)) for k in splits_of(s, e, msl)]  # noqa: E731
                if not check_rows(acc, case, key, rows, msl, agg):
                    return
                check_greedy(acc, case, key, rows, cpts, thr)
                acc.nt()
                acc.outcome(f"rows={min(len(rows), 12)}")
                return
            if fam == "data":
                check_data(acc, case, key)
                return
            # table families
            T = np.zeros((n + 1, n + 1, n + 1, p))
            thr_scale = case.get("thr_scale", 1.0)
            default = 2 * p * np.sqrt(np.log(n))
            thr = thr_scale * default
            unit = thr if thr > 0 else 1.0
            shape = case.get("shape")
            if shape == "neg":
                # every admissible score is NEGATIVE (level - 5 units): maxima and maximisers are still defined
                T[:, :, :, 0] = -5.0 * unit
            for (s, k, e, lv) in case["cells"]:
                if shape == "neg":
                    T[s, k, e, 0] = (lv - 5.0) * unit
                elif shape == "tight":
                    # level 1 = the threshold exactly, levels 2, 3 exceed it by 2^-20, 2^-19 of its size
                    T[s, k, e, 0] = (1.0 + (lv - 1.0) * 2.0 ** -20) * unit
                elif p == 1:
                    T[s, k, e, 0] = lv * unit
                else:  # split unevenly: level L -> (L-1, 1) units, level 1 -> (0, 1)
                    T[s, k, e, 0] = max(lv - 1.0, 0.0) * unit
                    T[s, k, e, 1] = min(lv, 1.0) * unit
            if p == 2:
                # decoy: column 0 alone would prefer another split
                for (s, k, e, lv) in case.get("decoy", []):
                    T[s, k, e, 0] += lv * unit
                    T[s, k, e, 1] -= lv * unit
            sc = TableChangeScore(T)
            cpts, rows, thr_rb, det = sbs(n, p, msl, M, g, sc, thr_scale)
            if thr_rb != thr:
                acc.violation("sbs-threshold-readback", case, f"threshold_ {thr_rb!r} != scale*default {thr!r}", key)
                return
            if not check_intervals(acc, case, key, rows, n, msl, M):
                return
            if not check_rows(acc, case, key, rows, msl, table_agg(T, msl)):
                return
            ok, nouts = check_greedy(acc, case, key, rows, cpts, thr_rb)
            if cpts or nouts > 1:
                acc.nt()
            acc.outcome(f"K={len(cpts)}")
            if case.get("mono") and thr > 0:
                # raising the threshold can only remove changepoints
                sc2 = TableChangeScore(T)
                cp2, rows2, thr2, _ = sbs(n, p, msl, M, g, sc2, 2.0 * thr_scale)
                acc.count("threshold_pairs")
                if not set(cp2) <= set(cpts):
                    acc.violation("sbs-threshold-monotonicity", case,
                                  f"threshold {thr_rb!r}: {cpts}; threshold {thr2!r}: {cp2} (not a subset)", key)
                check_greedy(acc, case, key, rows2, cp2, thr2)
    except core.CaseTimeout:
        acc.violation("timeout", case, "predict did not return within the per-case time limit", key)
    except Exception as e:
        acc.violation("sbs-raised", case, f"{type(e).__name__}: {e}", dict(key, exc=type(e).__name__))


def make_score(name):
    from skchange.change_scores import CUSUM, ChangeScore
    from skchange.costs import GaussianVarCost, L2Cost

    from skchange.costs import GaussianCovCost

    return {"CUSUM": lambda: CUSUM(), "L2": lambda: ChangeScore(L2Cost()), "L2cost": lambda: L2Cost(),
            "GV": lambda: ChangeScore(GaussianVarCost()), "Cov": lambda: GaussianCovCost()}[name]()


def check_data(acc, case, key):
    X = np.array(case["x"], dtype=float)
    if X.ndim == 1:
        X = X.reshape(-1, 1)
    n, p = X.shape
    msl, M, g = case["msl"], case["M"], case["growth"]
    Xf = pd.DataFrame(X)
    try:
        cpts, rows, thr, det = sbs(n, p, msl, M, g, make_score(case["score"]), case["thr_scale"], X=Xf, level=case.get("level"),
                                   fit_rows=case.get("fit_rows"))
    except RuntimeError:
        if case["score"] != "Cov":
            raise
        acc.count("cov_data_with_a_singular_window_skipped")
        return
    if not check_intervals(acc, case, key, rows, n, msl, M):
        return
    if case["score"] == "Cov":
        # multivariate cost: oracle = the DEFINITION C(s,e) - C(s,k) - C(k,e), each term from a fresh cost on exactly those rows
        mk = lambda: make_score("Cov")  # noqa: E731

        def agg(s, e):
            return [(k, util.whole_cost(mk, X[s:e]) - util.whole_cost(mk, X[s:k]) - util.whole_cost(mk, X[k:e])) for k in splits_of(s, e, msl)]
    else:
        ref = make_score("L2" if case["score"] == "L2cost" else case["score"]).fit(X)

        def agg(s, e):
            ks = splits_of(s, e, msl)
            vals = ref.evaluate(np.array([(s, k, e) for k in ks])).sum(axis=1)
            return list(zip(ks, map(float, vals)))

    if not check_rows(acc, case, key, rows, msl, agg, tol=1e-8):
        return
    check_greedy(acc, case, key, rows, cpts, thr)
    if case["thr_scale"] is None and not case.get("fit_rows"):
        # tuned threshold: quantile bracket of the training scores (see C15)
        sc = sorted(r[3] for r in rows)
        lo, hi = sc[0], sc[-1]
        if not (lo - 1e-12 <= thr <= hi + 1e-12):
            acc.violation("sbs-tuned-threshold-range", case, f"tuned threshold {thr!r} outside the range of training scores [{lo!r},{hi!r}]", key)
    if cpts:
        acc.nt()
    acc.outcome(f"K={len(cpts)}")


# -------------------------------------------------------------------------------------
GROWTHS = (1.05, 1.1, 1.25, 1.33, 1.5, 1.75, 2.0)


def grid_cases(tier):
    top = 30 if tier == "quick" else 48
    for n in range(2, top + 1):
        for msl in (1, 2, 3, 4):
            if n < 2 * msl:
                continue
            Ms = sorted(set(range(2 * msl, min(n, 2 * msl + 6) + 1)) | {n - 1, n, n + 2} | ({n // 2} if n // 2 >= 2 * msl else set()))
            for M in Ms:
                if M < 2 * msl:
                    continue
                for g in GROWTHS:
                    yield {"fam": "grid", "n": n, "msl": msl, "M": M, "growth": g}


def small_configs(tier):
    top = 7 if tier == "quick" else 9
    out = []
    for n in range(2, top + 1):
        for msl in (1, 2, 3):
            if n < 2 * msl:
                continue
            for M in sorted({2 * msl, 2 * msl + 1, n}):
                if M < 2 * msl or M > n + 1:
                    continue
                for g in (1.5, 2.0):
                    out.append((n, msl, M, g))
    return out


def rowmax_cases(tier):
    for (n, msl, M, g) in small_configs(tier):
        for (s, e) in impl_intervals(n, msl, M, g):
            sp = splits_of(s, e, msl)
            if len(sp) > (5 if tier == "quick" else 7):
                continue
            for vals in itertools.product((0, 1, 2), repeat=len(sp)):
                cells = [(s, k, e, float(v)) for k, v in zip(sp, vals) if v]
                yield {"fam": "rowmax", "n": n, "p": 1, "msl": msl, "M": M, "growth": g, "cells": cells, "thr_scale": 0.0}
                if len(sp) <= 4:
                    yield {"fam": "rowmax", "n": n, "p": 1, "msl": msl, "M": M, "growth": g, "cells": cells, "thr_scale": 0.0, "shape": "neg"}
            if len(sp) >= 2 and len(sp) <= 4:
                for vals in itertools.product((0, 1, 2), repeat=len(sp)):
                    cells = [(s, k, e, float(v)) for k, v in zip(sp, vals) if v]
                    decoy = [(s, sp[(i + 1) % len(sp)], e, 2.0) for i, v in enumerate(vals) if v == 2][:1]
                    yield {"fam": "rowmax2", "n": n, "p": 2, "msl": msl, "M": M, "growth": g, "cells": cells,
                           "decoy": decoy, "thr_scale": 0.0}


def greedy_full_cases(tier):
    maxiv = 6 if tier == "quick" else 7
    for (n, msl, M, g) in small_configs(tier):
        ivs = impl_intervals(n, msl, M, g)
        if not ivs or len(ivs) > maxiv:
            continue
        opts = []
        for (s, e) in ivs:
            o = [None]
            for k in some_splits(s, e, msl):
                for lv in LEVELS[1:]:
                    o.append((s, k, e, lv))
            opts.append(o)
        total = 1
        for o in opts:
            total *= len(o)
        if total > (60000 if tier == "quick" else 1000000):
            continue
        for combo in itertools.product(*opts):
            cells = [c for c in combo if c is not None]
            yield {"fam": "greedy", "n": n, "p": 1, "msl": msl, "M": M, "growth": g, "cells": cells, "mono": len(cells) >= 1}


def greedy_dev_cases(tier):
    ns = (8, 9, 10, 12) if tier == "quick" else (7, 8, 9, 10, 11, 12, 13, 14, 16)
    for n in ns:
        for msl in (1, 2):
            for g in (1.25, 1.5, 2.0):
                for M in (n, max(2 * msl, n // 2)):
                    ivs = impl_intervals(n, msl, M, g)
                    if not ivs:
                        continue
                    one = []
                    for (s, e) in ivs:
                        for k in some_splits(s, e, msl):
                            one.append((s, k, e))
                    for c in one:
                        for lv in LEVELS[1:]:
                            yield {"fam": "greedy-dev", "n": n, "p": 1, "msl": msl, "M": M, "growth": g,
                                   "cells": [c + (lv,)], "mono": True}
                            for shape in ("tight", "neg"):
                                yield {"fam": "greedy-dev", "n": n, "p": 1, "msl": msl, "M": M, "growth": g,
                                       "cells": [c + (lv,)], "mono": False, "shape": shape}
                    # two deviations: only pairs of intervals that interact (overlap), levels {2,3}x{2,3}
                    for a, b in itertools.combinations(one, 2):
                        if (a[0], a[2]) == (b[0], b[2]):
                            continue
                        if not (a[0] < b[2] and b[0] < a[2]):
                            continue
                        for la, lb in ((2.0, 2.0), (3.0, 2.0), (2.0, 3.0)):
                            yield {"fam": "greedy-dev", "n": n, "p": 2 if (a[1] + b[1]) % 5 == 0 else 1, "msl": msl, "M": M,
                                   "growth": g, "cells": [a + (la,), b + (lb,)], "mono": la != lb}
                            if la != lb and (a[1] + b[1]) % 3 == 0:
                                yield {"fam": "greedy-dev", "n": n, "p": 1, "msl": msl, "M": M,
                                       "growth": g, "cells": [a + (la,), b + (lb,)], "mono": False, "shape": "tight"}


def data_cases(tier, seed):
    # multivariate cost (one output column whatever p is) on two generic columns
    for n in (6, 7, 8) if tier == "quick" else (6, 7, 8, 9, 10, 11):
        for xs in itertools.product((0, 3), repeat=n):
            yield {"fam": "data", "x": util.two_generic_columns(xs), "n": n, "score": "Cov", "msl": 3, "M": n, "growth": 1.5, "thr_scale": 0.05}
    a, b = util.seed_affine(seed)
    alphs2 = [(0, 4)]
    alphs3 = [(0, 1, 3), tuple(a + b * x for x in (0, 1, 3))]
    top2 = 9 if tier == "quick" else 11
    top3 = 7 if tier == "quick" else 8
    for alph, top in [(al, top2) for al in alphs2] + [(al, top3) for al in alphs3]:
        for n in range(2, top + 1):
            for xs in itertools.product(alph, repeat=n):
                for score, msl in (("CUSUM", 1), ("L2cost", 2), ("GV", 2)):
                    if n < 2 * msl:
                        continue
                    for thr_scale in (0.0, 0.5, None):
                        yield {"fam": "data", "x": list(xs), "n": n, "score": score, "msl": msl, "M": n, "growth": 1.5,
                               "thr_scale": thr_scale, "level": 0.3 if thr_scale is None else None}
    for n in (4, 5):
        for flat in itertools.product((0, 3), repeat=2 * n):
            x = [list(flat[2 * i:2 * i + 2]) for i in range(n)]
            yield {"fam": "data", "x": x, "n": n, "score": "CUSUM", "msl": 1, "M": n, "growth": 2.0, "thr_scale": 0.3}
    # three columns (aggregation over all columns)
    for n in (6, 7):
        for xs in itertools.product((0, 3), repeat=n):
            yield {"fam": "data", "x": util.three_columns(xs), "n": n, "score": "CUSUM" if n == 6 else "L2cost", "msl": 1 if n == 6 else 2, "M": n,
                   "growth": 1.5, "thr_scale": 0.2}
    # fitted on a shorter prefix, predicting the full series (threshold read back; the statement is about the data given to predict)
    for n in (7, 8) if tier == "quick" else (7, 8, 9, 10):
        for xs in itertools.product((0, 3), repeat=n):
            for k, ts in ((2, 0.3), (n - 3, None)):
                yield {"fam": "data", "x": list(xs), "n": n, "score": "CUSUM", "msl": 1, "M": 6, "growth": 1.5, "thr_scale": ts,
                       "level": 0.3 if ts is None else None, "fit_rows": k}


def long_cases(tier):
    # very long single cases (block boundaries of a chunked implementation fall inside the data)
    for n in (1200,) if tier == "quick" else (1200, 5000):
        for score, msl, M, g, ts in (("CUSUM", 5, 200, 1.5, 1.0), ("L2cost", 10, 300, 2.0, 2.0)):
            yield {"fam": "data", "x": util.very_long_series(n), "n": n, "score": score, "msl": msl, "M": M, "growth": g, "thr_scale": ts, "timeout": 900}
    # realistic lengths with candidate intervals as long as the series (64 and more samples)
    for n, msl, M, g in ((72, 4, 72, 1.5),) if tier == "quick" else ((72, 4, 72, 1.5), (100, 7, 100, 1.3), (136, 3, 136, 2.0)):
        for cps, xs in util.structured_series(n, 2, (0.0, 3.0)):
            if len(cps) == 2 and (cps[0] * 3 + cps[1]) % (8 if tier == "quick" else 2):
                continue
            for score, ts in (("CUSUM", 0.5), ("L2cost", 1.0)):
                yield {"fam": "data", "x": list(xs), "n": n, "score": score, "msl": msl, "M": M, "growth": g, "thr_scale": ts, "timeout": 300}
    for n in (12, 16, 24) if tier == "quick" else (12, 16, 24, 32, 40):
        for msl, M, g in ((1, 8, 1.5), (4, n, 1.5), (5, 12, 2.0), (2, n, 1.25)):
            if n < 2 * msl or M < 2 * msl:
                continue
            for cps, xs in util.structured_series(n, 2, (0.0, 3.0)):
                if len(cps) == 2 and (cps[0] * 3 + cps[1]) % 4 and n > 16:
                    continue
                for score, ts in (("CUSUM", 0.5), ("L2cost", 1.0)):
                    yield {"fam": "data", "x": list(xs), "n": n, "score": score, "msl": msl, "M": M, "growth": g, "thr_scale": ts}


FAMILIES = {"long": lambda t, s: long_cases(t), "grid": lambda t, s: grid_cases(t), "rowmax": lambda t, s: rowmax_cases(t),
            "greedy": lambda t, s: greedy_full_cases(t), "greedy-dev": lambda t, s: greedy_dev_cases(t),
            "data": lambda t, s: data_cases(t, s)}
NSH = {"long": 32, "grid": 16, "rowmax": 32, "greedy": 48, "greedy-dev": 48, "data": 64}


def shards(tier, seed):
    return [(fam, tier, seed, i, k) for fam, k in NSH.items() for i in range(k)]


def bounds(tier, seed):
    return {
        "grid": "n<=30 (quick) / 48 (thorough), msl<=4, M in {2msl..2msl+6, n//2, n-1, n, n+2}, growth in (1.05,1.1,1.25,1.33,1.5,1.75,2)",
        "small_configs(n,msl,M,growth)": [list(c) for c in small_configs(tier)],
        "levels": "multiples (0,1,2,3) of the read-back threshold; 1 = exact tie with the threshold",
        "shapes": "plain; 'tight' = levels 2, 3 exceed the threshold by only 2^-20, 2^-19 of its size; 'neg' = every admissible score negative (level - 5 units)",
        "greedy-dev": "n in (8,9,10,12) quick / (7..14,16) thorough, msl<=2, <=2 non-zero intervals (pairs restricted to overlapping intervals), splits {first, middle, last}",
        "long": "piecewise-constant textured series n in (12,16,24) quick / up to 40, <= 2 changes (all placements for n<=16), msl in (1,2,4,5), CUSUM and L2Cost; realistic length n = 72 (thorough also 100, 136) with max_interval_length = n",
        "data": "all series over (0,4) n<=9/11, (0,1,3) and its seed-affine image n<=7/8; 2-column (0,3) n<=5; scores CUSUM, L2Cost, ChangeScore(GaussianVarCost); thresholds 0, 0.5*default, tuned(level 0.3)",
    }


def run_shard(shard):
    fam, tier, seed, i, k = shard
    acc = core.Acc()
    for j, case in enumerate(FAMILIES[fam](tier, seed)):
        if j % k == i:
            check_case(acc, case)
    return acc


def finalize(acc, tier, seed):
    acc.extra["traces_validated"] = int(acc.counters.get("impl_traces_checked", 0))


def replay(case):
    acc = core.Acc()
    check_case(acc, case)
    return acc.violations
