"""C12 -- detections respect the model's symmetries: permutation, shift, scale, reversal.

Metamorphic pairs (X, T(X)) for every matrix over small alphabets.  Continuous outputs are
compared with a tolerance derived from the magnitude of the prefix sums; discrete outputs
(changepoints, anomalies, affected columns) are compared exactly and a mismatch is a
violation unless an independent tie analysis shows that the decision margin on X is below
the rounding bound (then the case is counted as skipped-for-margin, as the property says).
"""

from __future__ import annotations

import itertools

import numpy as np
import pandas as pd

from smc import core, dets, refmodels, util

ID = "C12"
LEVEL = "exploration"
RULE = (
    "one case = (data matrix over the alphabet, transformation). Transformations: every column permutation (p=2,3), "
    "shifts (-3, +2.5, +1000.5 / per-column mixed), scales (0.5, 3), time reversal. For each pair, every scorer of the "
    "menu is evaluated on ALL admissible cuts (mirrored cuts for reversal) and every applicable detector is run on both "
    "members. Non-trivial = the matrix is not constant."
)
ASSUMPTIONS = [
    "continuous outputs: tolerance 1e-11 * n * (1 + max|x|^2) + 1e-9 * |value| (prefix sums of shifted data lose absolute precision)",
    "scale invariance only where the variance floor is inactive: cuts all of whose parts have exact variance > 0 (determinant > 0 for the covariance cost); detectors only on series without two equal adjacent values (every window of length >= 2 then has positive variance)",
    "a discrete mismatch is excused only by a demonstrated near-tie (margin <= 1e-9 relative) found by an independent analysis: number of near-optimal segmentations / anomaly sets by brute force, score-vs-threshold and score-vs-score gaps, top-2 gaps inside an interval",
]

EPS = 1e-9


def ctol(X, n):
    return 1e-11 * n * (1.0 + float(np.max(np.abs(X))) ** 2)


def allclose(a, b, base):
    a, b = np.asarray(a, dtype=float), np.asarray(b, dtype=float)
    return a.shape == b.shape and bool(np.all(np.abs(a - b) <= base + 1e-9 * np.maximum(np.abs(a), np.abs(b))))


# ---------------------------------------------------------------------------------
# scorers


def scorer_menu(p):
    from skchange.anomaly_scores import L2Saving, LocalAnomalyScore, Saving
    from skchange.change_scores import CUSUM, ChangeScore
    from skchange.costs import GaussianCovCost, GaussianVarCost, L2Cost

    # name -> (factory, k cut entries, min size, per-column?, shift-invariant, scale-invariant)
    m = {
        "L2Cost": (lambda: L2Cost(), 2, 1, True, False, False),
        "L2Cost(1)": (lambda: L2Cost(param=1.0), 2, 1, True, False, False),
        "GaussianVarCost": (lambda: GaussianVarCost(), 2, 2, True, False, False),
        "GaussianVarCost(0,2)": (lambda: GaussianVarCost(param=(0.0, 2.0)), 2, 2, True, False, False),
        "GaussianCovCost": (lambda: GaussianCovCost(), 2, p + 1, False, False, False),
        "L2Saving": (lambda: L2Saving(), 2, 1, True, False, False),
        "CUSUM": (lambda: CUSUM(), 3, 1, True, True, False),
        "ChangeScore(L2Cost)": (lambda: ChangeScore(L2Cost()), 3, 1, True, True, False),
        "ChangeScore(GaussianVarCost)": (lambda: ChangeScore(GaussianVarCost()), 3, 2, True, True, True),
        "ChangeScore(GaussianCovCost)": (lambda: ChangeScore(GaussianCovCost()), 3, p + 1, False, True, True),
        "LocalAnomalyScore(L2Cost)": (lambda: LocalAnomalyScore(L2Cost()), 4, 1, True, True, False),
        "LocalAnomalyScore(GaussianVarCost)": (lambda: LocalAnomalyScore(GaussianVarCost()), 4, 2, True, True, True),
    }
    return m


def all_cuts(n, k, ms):
    from props import c06

    if k == 2:
        return [(s, e) for s in range(n) for e in range(s + ms, n + 1)]
    return c06.cuts3(n, ms) if k == 3 else c06.cuts4(n, ms)


def parts(cut, k):
    if k == 2:
        return [(cut[0], cut[1], None)]
    if k == 3:
        return [(cut[0], cut[1], None), (cut[1], cut[2], None), (cut[0], cut[2], None)]
    return [(cut[1], cut[2], None), (cut[0], cut[3], None), (cut[0], cut[1], (cut[2], cut[3]))]


def part_rows(X, part):
    s, e, more = part
    return X[s:e] if more is None else np.concatenate((X[s:e], X[more[0]:more[1]]))


def floor_free(X, cut, k, multivariate):
    """True iff every part of the cut has exact positive variance in every column
    (positive determinant for the multivariate cost)."""
    from fractions import Fraction as Fr
    from smc import costref

    for part in parts(cut, k):
        rows = [[Fr(v) for v in r] for r in part_rows(X, part).tolist()]
        if multivariate:
            if costref.det(costref.cov_exact(rows)) <= 0:
                return False
        elif any(v == 0 for v in costref.var_exact(rows)):
            return False
    return True


def evaluate_safe(sc, cuts):
    """Per-row evaluation tolerant to the documented non-PD RuntimeError."""
    try:
        return sc.evaluate(np.array(cuts)), None
    except RuntimeError:
        out, bad = [], set()
        for i, c in enumerate(cuts):
            try:
                out.append(sc.evaluate(np.array([c]))[0])
            except RuntimeError:
                out.append(None)
                bad.add(i)
        return out, bad


def mirror(cut, n):
    return tuple(n - c for c in reversed(cut))


def check_scorers(acc, case, X, T, Xt, perm=None):
    n, p = X.shape
    base = max(ctol(X, n), ctol(Xt, n))
    for name, (make, k, ms, percol, shift_inv, scale_inv) in scorer_menu(p).items():
        if T[0] == "shift" and not shift_inv:
            continue
        if T[0] == "scale" and not scale_inv:
            continue
        cuts = all_cuts(n, k, ms)
        if not cuts:
            continue
        key = {"what": "scorer", "scorer": name, "T": T[0]}
        try:
            a, bad_a = evaluate_safe(make().fit(X), cuts)
            tcuts = [mirror(c, n) for c in cuts] if T[0] == "reverse" else cuts
            b, bad_b = evaluate_safe(make().fit(Xt), tcuts)
        except Exception as e:
            acc.violation("raised", dict(case, scorer=name), f"{name}: {type(e).__name__}: {e}", dict(key, exc=type(e).__name__))
            continue
        acc.count("scorer_pairs")
        for i, c in enumerate(cuts):
            ra, rb = a[i], b[i]
            if ra is None or rb is None:
                if (ra is None) != (rb is None):
                    acc.count("nonpd_on_one_side_only")
                continue
            if T[0] == "scale" and not floor_free(X, c, k, not percol):
                acc.count("scale_cuts_skipped_variance_floor")
                continue
            if not percol and T[0] != "scale" and not floor_free(X, c, k, True):
                # exactly singular covariance: rounding decides the value (see C01)
                acc.count("cov_cuts_skipped_exactly_singular")
                continue
            want = ra[list(perm)] if (T[0] == "perm" and percol) else ra
            if not allclose(rb, want, base):
                acc.violation("scorer-symmetry", dict(case, scorer=name, cut=list(c)),
                              f"{name} on cut {c}: {ra.tolist()} on X but {rb.tolist()} on {T[0]}(X)" + (f" at mirrored cut {tcuts[i]}" if T[0] == "reverse" else ""),
                              key)
                break


# ---------------------------------------------------------------------------------
# detectors and tie analyses


def det_menu(T0):
    from skchange.costs import GaussianVarCost, L2Cost

    m = {
        "PELT(L2)": ("PELT", dict(cost=L2Cost(), penalty_scale=0.1, min_segment_length=1), True, False),
        "PELT(GV)": ("PELT", dict(cost=GaussianVarCost(), penalty_scale=0.1, min_segment_length=2), True, True),
        "MW(CUSUM)": ("MovingWindow", dict(bandwidth=2, threshold_scale=0.1), True, False),
        "MW(GV)": ("MovingWindow", dict(change_score=GaussianVarCost(), bandwidth=2, threshold_scale=0.1), True, True),
        "SBS(CUSUM)": ("SeededBinarySegmentation", dict(threshold_scale=0.3, min_segment_length=1, max_interval_length=20), True, False),
        "SBS(GV)": ("SeededBinarySegmentation", dict(change_score=GaussianVarCost(), threshold_scale=0.3, min_segment_length=2, max_interval_length=20), True, True),
        "CBS(L2)": ("CircularBinarySegmentation", dict(anomaly_score=L2Cost(), threshold_scale=0.05, min_segment_length=1, max_interval_length=20), True, False),
        "CBS(GV)": ("CircularBinarySegmentation", dict(anomaly_score=GaussianVarCost(), threshold_scale=0.05, min_segment_length=2, max_interval_length=20), True, True),
        "CAPA": ("CAPA", dict(collective_penalty_scale=0.1, point_penalty_scale=0.05, min_segment_length=2, max_segment_length=100), False, False),
        "MVCAPA": ("MVCAPA", dict(collective_penalty_scale=0.1, point_penalty_scale=0.1, min_segment_length=2, max_segment_length=100), False, False),
        # rank-dependent per-component penalties (unequal betas): a column-position dependent treatment shows
        "MVCAPA(intermediate)": ("MVCAPA", dict(collective_penalty="intermediate", collective_penalty_scale=0.1, point_penalty="intermediate",
                                                point_penalty_scale=0.3, min_segment_length=2, max_segment_length=100), False, False),
    }
    if T0 == "perm":
        return m
    if T0 == "shift":
        return {k: v for k, v in m.items() if v[2]}
    if T0 == "scale":
        return {k: v for k, v in m.items() if v[3]}
    return {k: v for k, v in m.items() if k.startswith("PELT")}  # reversal: PELT optimum only


def run_det(cls, kw, X):
    det = dets.make_detector(cls, **{k: (v.clone() if hasattr(v, "clone") else v) for k, v in kw.items()})
    Xf = pd.DataFrame(X)
    det.fit(Xf)
    y = det.predict(Xf)
    return det, dets.sparse_events(y, dets.kind_of(cls))


def near(a, b, base=0.0):
    return abs(a - b) <= base + EPS * max(1.0, abs(a), abs(b))


def pelt_near_optimal(X, kw, pen):
    """Number of admissible segmentations whose penalised cost is within the rounding bound of the optimum."""
    n = len(X)
    msl = kw["min_segment_length"]
    c = kw["cost"].clone().fit(X)
    ms = max(msl, c.min_size or 1)
    C = {}
    ivs = [(s, e) for s in range(n) for e in range(s + ms, n + 1)]
    for iv, v in zip(ivs, c.evaluate(np.array(ivs)).sum(axis=1)):
        C[iv] = float(v)
    vals = []
    for k in range(0, n):
        for cps in itertools.combinations(range(1, n), k):
            b = (0,) + cps + (n,)
            if any(b[i + 1] - b[i] < msl for i in range(len(b) - 1)):
                continue
            vals.append(sum(C[(b[i], b[i + 1])] for i in range(len(b) - 1)) + pen * k)
    best = min(vals)
    return sum(1 for v in vals if near(v, best, ctol(X, n)))


def capa_near_optimal(X, det, cls):
    """Number of anomaly sets within the rounding bound of the optimal total penalised saving (n small)."""
    import skchange.anomaly_detectors.mvcapa as mv
    from skchange.anomaly_scores import L2Saving

    n, p = X.shape
    msl, M = det.min_segment_length, min(det.max_segment_length, n)
    sv = L2Saving().fit(X)
    if cls == "CAPA":
        ca, cb, pa, pb = det.collective_penalty_, [0.0] * p, det.point_penalty_, [0.0] * p
    else:
        ca, cb = mv.capa_penalty_factory(det.collective_penalty)(n, p, 1, scale=det.collective_penalty_scale)
        pa, pb = mv.capa_penalty_factory(det.point_penalty)(n, p, 1, scale=det.point_penalty_scale)
    PS = {}
    for s in range(n):
        for e in range(s + msl, min(n, s + M) + 1):
            PS[(s, e)] = refmodels.penalised_saving_subsets(sv.evaluate(np.array([[s, e]]))[0].tolist(), float(ca), list(map(float, cb)))[0]
    PP = [refmodels.penalised_saving_subsets(sv.evaluate(np.array([[t, t + 1]]))[0].tolist(), float(pa), list(map(float, pb)))[0] for t in range(n)]
    vals = []

    def rec(t, acc_v):
        if t >= n:
            vals.append(acc_v)
            return
        rec(t + 1, acc_v)
        rec(t + 1, acc_v + PP[t])
        for e in range(t + msl, min(n, t + M) + 1):
            rec(e, acc_v + PS[(t, e)])

    rec(0, 0.0)
    best = max(vals)
    return sum(1 for v in vals if near(v, best, ctol(X, n)))


def table_ties(rows_scores, thr, base):
    """Near-ties that can change a greedy selection: a score near the threshold, or two different scores near each other."""
    sc = sorted(rows_scores)
    if any(near(s, thr, base) for s in sc):
        return True
    return any(near(sc[i], sc[i + 1], base) and sc[i] > thr - base for i in range(len(sc) - 1))


def check_detectors(acc, case, X, T, Xt, perm=None):
    n, p = X.shape
    base = max(ctol(X, n), ctol(Xt, n))
    nodup = all(np.all(X[i] != X[i + 1]) for i in range(n - 1))
    for name, (cls, kw, _, _) in det_menu(T[0]).items():
        msl = kw.get("min_segment_length", 1)
        need = {"PELT": 2 * msl, "MovingWindow": 2 * kw.get("bandwidth", 1), "SeededBinarySegmentation": 2 * msl,
                "CircularBinarySegmentation": 2 * msl, "CAPA": msl, "MVCAPA": msl}[cls]
        if n < need:
            continue
        if "GV" in name and (n < 4):
            continue
        if T[0] == "scale" and not nodup:
            acc.count("scale_detector_runs_skipped_variance_floor")
            continue
        if T[0] == "scale" and cls == "CircularBinarySegmentation" and any(
                np.any(X[i] == X[j]) for i in range(n) for j in range(i + 3, n)):  # in ANY column (the floor is per column)
            # pooled surroundings may consist of two equal non-adjacent rows -> variance floor active
            acc.count("scale_detector_runs_skipped_variance_floor")
            continue
        if cls in ("CAPA", "MVCAPA") and n > 5:
            continue
        key = {"what": "detector", "det": name, "T": T[0]}
        c2 = dict(case, det=name)
        try:
            with core.case_timer():
                d1, e1 = run_det(cls, kw, X)
                d2, e2 = run_det(cls, kw, Xt)
        except core.CaseTimeout:
            acc.violation("timeout", c2, "did not return", key)
            continue
        except Exception as e:
            acc.violation("raised", c2, f"{name}: {type(e).__name__}: {e}", dict(key, exc=type(e).__name__))
            continue
        acc.count("detector_pairs")
        # continuous outputs first
        if cls == "PELT":
            s1, s2 = np.asarray(d1.scores, dtype=float), np.asarray(d2.scores, dtype=float)
            if T[0] == "reverse":
                if not near(s1[-1], s2[-1], base):
                    acc.violation("pelt-optimum-symmetry", c2, f"{name}: optimal penalised cost {s1[-1]!r} on X, {s2[-1]!r} on reversed X", key)
                continue
            if T[0] == "scale":
                # Gaussian costs are not scale invariant themselves: C(aX) = C(X) + len * p * log(a^2); the minimiser is
                s2 = s2 - np.arange(1, n + 1) * p * np.log(T[1] ** 2)
            if not allclose(s1[msl - 1:], s2[msl - 1:], base):
                acc.violation("detector-scores-symmetry", c2, f"{name}: prefix optima {s1.tolist()} vs {s2.tolist()} under {T}", key)
                continue
            if e1 != e2:
                if pelt_near_optimal(X, kw, float(d1.penalty_)) > 1:
                    acc.count("discrete_skipped_for_margin")
                else:
                    acc.violation("detector-output-symmetry", c2, f"{name}: changepoints {e1} on X, {e2} on {T[0]}(X) although the optimal segmentation is unique by margin", key)
        elif cls == "MovingWindow":
            s1, s2 = np.asarray(d1.scores, dtype=float), np.asarray(d2.scores, dtype=float)
            if not allclose(s1, s2, base):
                acc.violation("detector-scores-symmetry", c2, f"{name}: scores {s1.tolist()} vs {s2.tolist()} under {T}", key)
                continue
            if e1 != e2:
                thr = float(d1.threshold_)
                tie = any(near(s, thr, base) for s in s1)
                for a, b in refmodels.runs_of_true([bool(s > thr) for s in s1]):
                    seg = sorted(s1[a:b], reverse=True)
                    tie = tie or (len(seg) > 1 and near(seg[0], seg[1], base))
                if tie:
                    acc.count("discrete_skipped_for_margin")
                else:
                    acc.violation("detector-output-symmetry", c2, f"{name}: changepoints {e1} on X, {e2} on {T[0]}(X) with clear margins", key)
        elif cls in ("SeededBinarySegmentation", "CircularBinarySegmentation"):
            t1, t2 = d1.scores, d2.scores
            sc1, sc2 = np.asarray(t1["score"], dtype=float), np.asarray(t2["score"], dtype=float)
            if not allclose(sc1, sc2, base):
                acc.violation("detector-scores-symmetry", c2, f"{name}: interval scores {sc1.tolist()} vs {sc2.tolist()} under {T}", key)
                continue
            if e1 != e2:
                thr = float(d1.threshold_)
                arg_cols = ["argmax_cpt"] if cls.startswith("Seeded") else ["argmax_anomaly_start", "argmax_anomaly_end"]
                same_arg = all(list(t1[c]) == list(t2[c]) for c in arg_cols)
                if table_ties(sc1.tolist(), thr, base) or not same_arg:
                    # differing maximisers inside an interval come from a near-tie inside that interval
                    # only if the interval's top two candidate scores are within the bound
                    explained = table_ties(sc1.tolist(), thr, base)
                    if not explained and not same_arg:
                        explained = inner_tie(cls, kw, X, t1, t2, arg_cols, base)
                    if explained:
                        acc.count("discrete_skipped_for_margin")
                        continue
                acc.violation("detector-output-symmetry", c2, f"{name}: detections {e1} on X, {e2} on {T[0]}(X) with clear margins", key)
        else:  # CAPA / MVCAPA, permutation only
            s1, s2 = np.asarray(d1.scores, dtype=float), np.asarray(d2.scores, dtype=float)
            if not allclose(s1, s2, base):
                acc.violation("detector-scores-symmetry", c2, f"{name}: cumulative savings {s1.tolist()} vs {s2.tolist()} under {T}", key)
                continue
            iv1 = [(a, b) for a, b, *r in e1]
            iv2 = [(a, b) for a, b, *r in e2]
            if iv1 != iv2:
                if capa_near_optimal(X, d1, cls) > 1:
                    acc.count("discrete_skipped_for_margin")
                else:
                    acc.violation("detector-output-symmetry", c2, f"{name}: anomalies {iv1} on X, {iv2} on permuted X although the optimum is unique by margin", key)
                continue
            if cls == "MVCAPA":
                from skchange.anomaly_scores import L2Saving

                sv = L2Saving().fit(X)
                inv = {new: old for new, old in enumerate(perm)}  # column j of Xt is column perm[j] of X
                for (a, b, c1), (_, _, cc2) in zip(e1, e2):
                    mapped = sorted(inv[j] for j in cc2)
                    if sorted(c1) != mapped:
                        sav = sorted(sv.evaluate(np.array([[a, b]]))[0].tolist())
                        if any(near(sav[i], sav[i + 1], base) for i in range(len(sav) - 1)):
                            acc.count("discrete_skipped_for_margin")
                        else:
                            acc.violation("icolumns-permutation", c2, f"MVCAPA anomaly [{a},{b}): columns {sorted(c1)} on X, {mapped} (mapped back) on permuted X", key)


def inner_tie(cls, kw, X, t1, t2, arg_cols, base):
    """Do the intervals whose reported maximiser differs have a near-tie between their top two candidates?"""
    from props import c09

    msl = kw["min_segment_length"]
    if cls.startswith("Seeded"):
        from skchange.change_scores import CUSUM, to_change_score

        sc = to_change_score(kw["change_score"].clone() if "change_score" in kw else CUSUM()).fit(X)
        for i in range(len(t1)):
            if int(t1["argmax_cpt"][i]) != int(t2["argmax_cpt"][i]):
                s, e = int(t1["start"][i]), int(t1["end"][i])
                ks = list(range(s + msl, e - msl + 1))
                v = sorted(sc.evaluate(np.array([(s, k, e) for k in ks])).sum(axis=1), reverse=True)
                if not (len(v) > 1 and near(v[0], v[1], base)):
                    return False
        return True
    from skchange.anomaly_scores import to_local_anomaly_score

    sc = to_local_anomaly_score(kw["anomaly_score"].clone()).fit(X)
    for i in range(len(t1)):
        if any(int(t1[c][i]) != int(t2[c][i]) for c in arg_cols):
            s, e = int(t1["interval_start"][i]), int(t1["interval_end"][i])
            inner = c09.inner_ref(s, e, msl)
            v = sorted(sc.evaluate(np.array([(s, a, b, e) for a, b in inner])).sum(axis=1), reverse=True)
            if not (len(v) > 1 and near(v[0], v[1], base)):
                return False
    return True


# ---------------------------------------------------------------------------------


def transforms(p):
    out = [("reverse",)]
    for perm in itertools.permutations(range(p)):
        if list(perm) != list(range(p)):
            out.append(("perm", list(perm)))
    out += [("shift", [-3.0] * p), ("shift", [2.5] * p), ("shift", [1000.5] * p)]
    if p > 1:
        out.append(("shift", [(-3.0, 2.5, 1000.5)[j % 3] for j in range(p)]))
    out += [("scale", 0.5), ("scale", 3.0)]
    return out


def apply(X, T):
    if T[0] == "reverse":
        return X[::-1].copy()
    if T[0] == "perm":
        return X[:, T[1]].copy()
    if T[0] == "shift":
        return X + np.array(T[1], dtype=float)
    return X * T[1]


def check_matrix(acc, X, only=None):
    X = np.array(X, dtype=float)
    n, p = X.shape
    nontriv = bool(np.any(X != X[0]))
    for T in transforms(p):
        if only is not None and list(only) != core.jsonable(T):
            continue
        if T[0] == "shift" and float(np.max(np.abs(X))) < 1e-3:
            # a shift 1e5 times the spread is not "of moderate size" (the variance from prefix sums then loses
            # (offset/spread)^2 * eps of relative precision): the small-magnitude space is for scaling only
            acc.count("shift_skipped_on_small_magnitude_space")
            continue
        acc.ev()
        case = {"x": X.tolist(), "T": core.jsonable(T)}
        Xt = apply(X, T)
        perm = T[1] if T[0] == "perm" else None
        X0, Xt0 = X.copy(), Xt.copy()
        try:
            check_scorers(acc, case, X, T, Xt, perm)
            check_detectors(acc, case, X, T, Xt, perm)
        except Exception as e:
            acc.violation("harness-raised", case, f"{type(e).__name__}: {e}", {"exc": type(e).__name__})
        # the arrays handed to fit / predict must come back untouched (they are shared with the callers' frames)
        if not (np.array_equal(X, X0) and np.array_equal(Xt, Xt0)):
            acc.violation("caller-data-modified", case, f"input array modified in place by fit / predict / evaluate under {T}", {"T": T[0], "what": "input"})
            X[...] = X0
        if nontriv:
            acc.nt()
        acc.outcome(T[0])
    acc.sample({"x": X.tolist()}, limit=2)


def spaces(tier, seed):
    q = tier == "quick"
    a, b = util.seed_affine(seed)
    s3 = (0, 1, 3)
    s3s = tuple(a + b * x for x in s3)
    out = [(s3, n, 1) for n in range(2, (6 if q else 7) + 1)]
    out += [(s3s, n, 1) for n in range(2, (5 if q else 6) + 1)]
    out += [(s3, n, 2) for n in range(2, (3 if q else 4) + 1)]
    out += [((0, 3), n, 2) for n in range(4, (5 if q else 6) + 1)]
    out += [((0, 3), n, 3) for n in range(2, (3 if q else 4) + 1)]
    if not q:
        out += [(s3, 3, 3)]
    # small-magnitude data (standard deviations around 1e-5..1e-4, far above the documented 1e-16 variance floor):
    # moderate scale factors must not move anything across a floor
    out += [(tuple(3e-5 * x for x in s3), n, 1) for n in range(2, (5 if q else 6) + 1)]
    return out


def shards(tier, seed):
    sh = []
    for si, (alph, n, p) in enumerate(spaces(tier, seed)):
        total = len(alph) ** (n * p)
        step = 24 if n * p >= 6 else 128
        for lo in range(0, total, step):
            sh.append((tier, seed, si, lo, min(total, lo + step)))
    return sh


def bounds(tier, seed):
    return {"spaces(alphabet,n,p)": [[list(a), n, p] for a, n, p in spaces(tier, seed)],
            "transformations": [core.jsonable(t) for t in transforms(3)], "scorers": list(scorer_menu(2)), "detectors": list(det_menu("perm"))}


def run_shard(shard):
    tier, seed, si, lo, hi = shard
    alph, n, p = spaces(tier, seed)[si]
    acc = core.Acc()
    for X in itertools.islice(util.matrices(alph, n, p), lo, hi):
        check_matrix(acc, X)
    return acc


def replay(case):
    acc = core.Acc()
    check_matrix(acc, case["x"], only=case["T"])
    if "scorer" in case:
        acc.violations = [v for v in acc.violations if v["case"].get("scorer") == case["scorer"]]
    if "det" in case:
        acc.violations = [v for v in acc.violations if v["case"].get("det") == case["det"]]
    return acc.violations
