"""Boring reference models.  Everything here is brute force or an unpruned recursion;
the self-test cross-checks each against a second, independent formulation."""

from __future__ import annotations

import itertools
import math

INF = float("inf")


# ---------------------------------------------------------------------------------
# penalised optimal partitioning (C02)


def opt_partition(C, n, msl, pen):
    """Unpruned Bellman recursion.  C[s][e] = summed cost of segment [s, e).
    Returns F with F[L] = optimal penalised cost of the prefix of length L
    (inf where no admissible segmentation exists; F[0] = -pen by convention)."""
    F = [INF] * (n + 1)
    F[0] = -pen
    for t in range(msl, n + 1):
        best = INF
        for s in range(0, t - msl + 1):
            if F[s] == INF:
                continue
            v = F[s] + C[s][t] + pen
            if v < best:
                best = v
        F[t] = best
    return F


def opt_partition_bruteforce(C, L, msl, pen):
    """Minimum over *all* changepoint subsets of 1..L-1 whose segments are >= msl."""
    best = INF
    for k in range(0, L):
        for cps in itertools.combinations(range(1, L), k):
            b = (0,) + cps + (L,)
            if any(b[i + 1] - b[i] < msl for i in range(len(b) - 1)):
                continue
            v = sum(C[b[i]][b[i + 1]] for i in range(len(b) - 1)) + pen * k
            best = min(best, v)
    return best


def segmentation_cost(C, n, cpts, pen):
    b = [0] + list(cpts) + [n]
    return sum(C[b[i]][b[i + 1]] for i in range(len(b) - 1)) + pen * len(cpts)


# ---------------------------------------------------------------------------------
# CAPA: penalised savings and optimal anomaly sets (C03, C16)


def penalised_saving_subsets(sav, alpha, betas):
    """max over non-empty component subsets J of sum_J sav - alpha - sum_{j<|J|} betas[j]
    (all 2^p - 1 subsets; independent of the sorted-prefix formula).
    Returns (value, set of maximising subsets as sorted tuples)."""
    p = len(sav)
    best, arg = -INF, []
    for k in range(1, p + 1):
        pen = alpha + sum(betas[:k])
        for J in itertools.combinations(range(p), k):
            v = sum(sav[j] for j in J) - pen
            if v > best + 1e-12:
                best, arg = v, [J]
            elif abs(v - best) <= 1e-12:
                arg.append(J)
    return best, arg


def penalised_saving_sorted(sav, alpha, betas):
    """Sorted-prefix formulation (second, independent formulation for the self-test)."""
    s = sorted(sav, reverse=True)
    best = -INF
    acc = -alpha
    for k in range(len(s)):
        acc += s[k] - betas[k]
        best = max(best, acc)
    return best


def capa_opt(PS, PP, n, msl, M):
    """Unpruned recursion for the optimal total penalised saving of every prefix.
    PS[s][e]: penalised collective saving of [s,e) (defined for msl <= e-s <= M),
    PP[t]: penalised point saving of sample t.   G[L] for L = 0..n."""
    G = [0.0] * (n + 1)
    for t in range(1, n + 1):
        best = G[t - 1]
        best = max(best, G[t - 1] + PP[t - 1])
        for s in range(max(0, t - M), t - msl + 1):
            best = max(best, G[s] + PS[s][t])
        G[t] = best
    return G


def capa_opt_bruteforce(PS, PP, L, msl, M):
    """Maximum over all sets of pairwise disjoint collective intervals (length in
    [msl, M]) and single-sample point anomalies inside [0, L), by recursive enumeration
    of every labelling of the samples from left to right."""

    def rec(t):
        if t >= L:
            return 0.0
        best = rec(t + 1)  # sample t normal
        best = max(best, PP[t] + rec(t + 1))  # point anomaly
        for e in range(t + msl, min(L, t + M) + 1):
            best = max(best, PS[t][e] + rec(e))
        return best

    return rec(0)


# ---------------------------------------------------------------------------------
# greedy selection specifications (C07, C09) -- nondeterministic, explored completely


def greedy_spec_outcomes(scores, picks, starts, ends, threshold, removes, limit=100000):
    """All outputs of the nondeterministic greedy specification.

    scores[i]: score of candidate interval i; picks[i]: what is emitted when i is
    chosen; removes(pick, i) -> bool: whether interval i is discarded once `pick`
    has been emitted.  At each step ANY remaining interval whose score is maximal
    among the remaining and > threshold may be chosen.  Returns (set of frozensets
    of emitted picks in sorted tuple form, number of spec states, transitions)."""
    m = len(scores)
    start_state = frozenset(range(m))
    seen = {}
    outcomes = set()
    stack = [(start_state, ())]
    visited = set()
    transitions = 0
    while stack:
        alive, emitted = stack.pop()
        key = (alive, emitted)
        if key in visited:
            continue
        visited.add(key)
        if len(visited) > limit:
            raise RuntimeError("greedy spec state limit")
        if not alive:
            outcomes.add(tuple(sorted(emitted)))
            continue
        mx = max(scores[i] for i in alive)
        if not mx > threshold:
            outcomes.add(tuple(sorted(emitted)))
            continue
        for i in alive:
            if scores[i] == mx:
                pk = picks[i]
                nxt = frozenset(j for j in alive if not removes(pk, j))
                if i in nxt:  # the chosen interval must itself be removed
                    nxt = nxt - {i}
                transitions += 1
                stack.append((nxt, emitted + (pk,)))
    return outcomes, len(visited), transitions


# ---------------------------------------------------------------------------------
# moving-window run detection (C08)


def runs_of_true(flags):
    """Maximal runs of True as (start, end) pairs -- plain scan."""
    out, i, n = [], 0, len(flags)
    while i < n:
        if flags[i]:
            j = i
            while j < n and flags[j]:
                j += 1
            out.append((i, j))
            i = j
        else:
            i += 1
    return out


def runs_of_true_regex(flags):
    import re

    s = "".join("1" if f else "0" for f in flags)
    return [(m.start(), m.end()) for m in re.finditer("1+", s)]
