"""Mode C: explicit-state breadth-first search over call histories of real objects.

A *world* is a dict of real skchange objects (detectors / scorers that may share
sub-objects) plus a boring reference model of each object: its hyper-parameter
specification tree, whether it is fitted and on which data.  Each transition calls a real
public method on a deep copy of the world (sharing preserved) and on the model; outputs
are compared with a *pristine* object built by constructors only from the model's
specification tree and fitted on the model's data.  States are de-duplicated on a
structural hash of the concrete object graph + the model state + all mutable
module-level globals of skchange.*.
"""

from __future__ import annotations

import collections
import copy
import hashlib
import sys
import types

import numpy as np
import pandas as pd

# ---------------------------------------------------------------------------------
# specification trees


def pnorm(v):
    """Representation-independent form of a plain hyper-parameter value: tuples, lists and arrays of the same numbers, and
    Python / NumPy scalars of the same value, compare equal (an implementation may store (0, 2) as an array)."""
    if isinstance(v, np.ndarray):
        return pnorm(v.tolist())
    if isinstance(v, (list, tuple)):
        return tuple(pnorm(x) for x in v)
    if isinstance(v, (bool, np.bool_)):
        return bool(v)
    if isinstance(v, (int, float, np.integer, np.floating)):
        return float(v)
    return repr(v)


class Spec:
    """('ClassName', {param: value | Spec | '@name'})"""

    __slots__ = ("cls", "params")

    def __init__(self, cls, **params):
        self.cls = cls
        self.params = dict(params)

    def copy(self):
        return Spec(self.cls, **{k: (v.copy() if isinstance(v, Spec) else v) for k, v in self.params.items()})

    def canon(self, resolve=None):
        items = []
        for k in sorted(self.params):
            v = self.params[k]
            if isinstance(v, Spec):
                v = v.canon(resolve)
            elif isinstance(v, str) and v.startswith("@") and resolve is not None:
                v = resolve(v).canon(resolve)
            elif callable(v):
                v = getattr(v, "__name__", repr(v))
            else:
                v = repr(pnorm(v))
            items.append((k, v))
        return (self.cls, tuple(items))


def find_class(name):
    import skchange.anomaly_detectors as ad
    import skchange.anomaly_scores as asc
    import skchange.change_detectors as cd
    import skchange.change_scores as cs
    import skchange.costs as co

    for m in (cd, ad, co, cs, asc):
        if hasattr(m, name):
            return getattr(m, name)
    raise KeyError(name)


def build(spec, resolve=None, shared=None):
    """Construct a fresh object graph by constructors only.  '@name' references are
    resolved to the named object's *current specification* (resolve) and built once per
    call (shared dict) so that sharing inside one pristine graph mirrors the world."""
    shared = {} if shared is None else shared
    kw = {}
    for k, v in spec.params.items():
        if isinstance(v, Spec):
            kw[k] = build(v, resolve, shared)
        elif isinstance(v, str) and v.startswith("@"):
            if v not in shared:
                shared[v] = build(resolve(v), resolve, shared)
            kw[k] = shared[v]
        else:
            kw[k] = copy.deepcopy(v)
    return find_class(spec.cls)(**kw)


# ---------------------------------------------------------------------------------
# canonical forms


def canon_value(v):
    """Hashable canonical form of an output / data value."""
    if isinstance(v, pd.DataFrame):
        return ("DataFrame", tuple(map(str, v.columns)), canon_index(v.index), tuple(canon_value(v[c]) for c in v.columns))
    if isinstance(v, pd.Series):
        if isinstance(v.dtype, pd.IntervalDtype):
            arr = v.array
            return ("IntervalSeries", str(v.dtype), arr.closed, tuple(map(int, arr.left)), tuple(map(int, arr.right)))
        if v.dtype == object:
            return ("ObjSeries", tuple(canon_value(x) for x in v))
        return ("Series", str(v.dtype), canon_index(v.index), np.asarray(v).tobytes())
    if isinstance(v, np.ndarray):
        return ("ndarray", v.shape, str(v.dtype), np.ascontiguousarray(v).tobytes())
    if isinstance(v, (list, tuple)):
        return (type(v).__name__,) + tuple(canon_value(x) for x in v)
    if isinstance(v, dict):
        return ("dict",) + tuple((str(k), canon_value(v[k])) for k in sorted(v, key=str))
    if isinstance(v, (np.floating, float)):
        return ("f", repr(float(v)))
    if isinstance(v, (np.integer, int, bool, np.bool_)):
        return ("i", int(v))
    if v is None or isinstance(v, str):
        return v
    if isinstance(v, pd.Index):
        return canon_index(v)
    return ("repr", repr(v))


def canon_index(ix):
    names = tuple(map(str, ix.names)) if any(nm is not None for nm in ix.names) else ()
    if isinstance(ix, pd.RangeIndex):
        return ("RangeIndex", ix.start, ix.stop, ix.step) + names
    return (type(ix).__name__, tuple(map(str, ix))) + names


def close_canon(a, b, tol=1e-10):
    """Equality of two canonical values up to float tolerance in arrays (outputs of
    the same computation on different objects may differ in the last ulp only if the
    implementation is non-deterministic; we still allow 1e-10)."""
    if a == b:
        return True
    if type(a) is not type(b):
        return False
    if isinstance(a, tuple) and isinstance(b, tuple):
        if len(a) != len(b):
            return False
        if a and a[0] in ("Series", "ndarray") and b[0] == a[0]:
            da, db = a[2 if a[0] == "ndarray" else 1], b[2 if b[0] == "ndarray" else 1]
            if da != db or a[:-1] != b[:-1]:
                return False
            if da.startswith("float"):
                x = np.frombuffer(a[-1], dtype=da)
                y = np.frombuffer(b[-1], dtype=db)
                return x.shape == y.shape and bool(np.allclose(x, y, rtol=tol, atol=tol, equal_nan=True))
            return False
        if a and a[0] == "f" and b[0] == "f":
            return abs(float(a[1]) - float(b[1])) <= tol * max(1.0, abs(float(a[1])))
        return all(close_canon(x, y, tol) for x, y in zip(a, b))
    return False


class ObjCanon:
    """Structural hash of a graph of estimator objects (sharing-aware)."""

    def __init__(self):
        self.seen = {}
        self.h = hashlib.blake2b(digest_size=16)

    def feed(self, *parts):
        for p in parts:
            self.h.update(p if isinstance(p, bytes) else str(p).encode())
            self.h.update(b"|")

    def walk(self, v, depth=0):
        from skbase.base import BaseObject

        if depth > 12:
            self.feed("deep")
            return
        if isinstance(v, BaseObject):
            if id(v) in self.seen:
                self.feed("ref", self.seen[id(v)])
                return
            self.seen[id(v)] = len(self.seen)
            self.feed("obj", type(v).__name__)
            d = vars(v)
            for k in sorted(d):
                self.feed("k", k)
                self.walk(d[k], depth + 1)
            self.feed("endobj")
        elif isinstance(v, np.ndarray):
            self.feed("nd", v.shape, v.dtype, np.ascontiguousarray(v).tobytes() if v.dtype != object else repr(v.tolist()))
        elif isinstance(v, (pd.DataFrame, pd.Series, pd.Index)):
            self.feed("pd", repr(canon_value(v)))
        elif isinstance(v, dict):
            self.feed("dict", len(v))
            for k in sorted(v, key=str):
                self.feed("k", k)
                self.walk(v[k], depth + 1)
        elif isinstance(v, (list, tuple, set, frozenset)):
            self.feed(type(v).__name__, len(v))
            for x in (sorted(v, key=repr) if isinstance(v, (set, frozenset)) else v):
                self.walk(x, depth + 1)
        elif isinstance(v, (types.FunctionType, types.BuiltinFunctionType, type)) or callable(v) and not hasattr(v, "__dict__"):
            self.feed("fn", getattr(v, "__qualname__", repr(v)))
        elif isinstance(v, float):
            self.feed("f", repr(v))
        elif isinstance(v, (np.floating, np.integer, np.bool_)):
            self.feed("np", repr(v.item()))
        elif hasattr(v, "__dict__") and not isinstance(v, types.ModuleType):
            self.feed("pyobj", type(v).__name__)
            self.walk(vars(v), depth + 1)
        else:
            self.feed("v", repr(v))

    def digest(self):
        return self.h.hexdigest()


# ---------------------------------------------------------------------------------
# module-level (and class-level) state of skchange.* is part of the explored state


class GlobalsTracker:
    """Tracks every non-callable module attribute (and container-valued class attribute)
    of the skchange.* modules loaded when it is created.  snapshot / restore / digest let
    the search treat hidden module-level state as part of the state instead of letting it
    leak between explored states."""

    SKIP_TYPES = (types.ModuleType, types.FunctionType, types.BuiltinFunctionType, type)

    def __init__(self):
        import skchange  # noqa: F401

        self.modules = [m for n, m in sorted(sys.modules.items())
                        if (n == "skchange" or n.startswith("skchange.")) and m is not None and ".tests" not in n]

    def _slots(self):
        for mod in self.modules:
            for k, v in sorted(vars(mod).items()):
                if k.startswith("__") or isinstance(v, self.SKIP_TYPES) or callable(v):
                    if isinstance(v, type) and getattr(v, "__module__", None) == mod.__name__:
                        for ck, cv in sorted(vars(v).items()):
                            if not ck.startswith("__") and isinstance(cv, (list, dict, set, np.ndarray, bytearray)):
                                yield (v, ck, cv)
                    continue
                if getattr(type(v), "__module__", "").startswith("typing") or type(v).__name__ == "_Environ":
                    continue
                yield (mod, k, v)

    def snapshot(self):
        out = []
        for owner, k, v in self._slots():
            try:
                out.append((owner, k, copy.deepcopy(v)))
            except Exception:
                pass
        return out

    def restore(self, snap):
        for owner, k, v in snap:
            try:
                setattr(owner, k, copy.deepcopy(v))
            except Exception:
                pass

    def digest(self):
        c = ObjCanon()
        for owner, k, v in self._slots():
            c.feed(getattr(owner, "__name__", repr(owner)), k)
            c.walk(v)
        return c.digest()
