"""Menu of built-in cost variants (both parameter modes, scalar / per-column / matrix
parameters) with their exact references.  Shared by C01, C06, C12, C13."""

from __future__ import annotations

from fractions import Fraction as Fr

import numpy as np

from smc import costref as R

MEANS = (Fr(1, 2), Fr(-1), Fr(2))
VARS = (Fr(1, 2), Fr(2), Fr(4))
SPD = {
    1: [[Fr(2)]],
    2: [[Fr(2), Fr(1, 2)], [Fr(1, 2), Fr(1)]],
    3: [[Fr(2), Fr(1, 2), Fr(0)], [Fr(1, 2), Fr(1), Fr(1, 4)], [Fr(0), Fr(1, 4), Fr(3, 2)]],
}


def fl(v):
    return [float(x) for x in v]


class Variant:
    def __init__(self, name, make, ref, min_size, multivariate=False, optimal=False, family=""):
        self.name, self.make, self.ref, self.min_size = name, make, ref, min_size
        self.multivariate, self.optimal, self.family = multivariate, optimal, family

    def width(self, p):
        return 1 if self.multivariate else p


def _vals(vs):
    return [("value", float(v)) for v in vs]


def variants(p):
    from skchange.costs import GaussianCovCost, GaussianVarCost, L2Cost

    mu = list(MEANS[:p])
    va = list(VARS[:p])
    diag = [[va[i] if i == j else Fr(0) for j in range(p)] for i in range(p)]
    spd = SPD[p]
    V = []
    V.append(Variant("L2/opt", lambda: L2Cost(), lambda seg: _vals(R.l2_optim(seg)), 1, optimal=True, family="L2"))
    V.append(Variant("L2/scalar", lambda: L2Cost(param=1.0), lambda seg: _vals(R.l2_fixed(seg, [Fr(1)])), 1, family="L2"))
    V.append(Variant("L2/percol", lambda: L2Cost(param=np.array(fl(mu))), lambda seg: _vals(R.l2_fixed(seg, mu)), 1, family="L2"))
    V.append(Variant("L2/len1", lambda: L2Cost(param=np.array([-2.0])), lambda seg: _vals(R.l2_fixed(seg, [Fr(-2)])), 1, family="L2"))
    V.append(Variant("GV/opt", lambda: GaussianVarCost(), lambda seg: [("value", v) for v, _ in R.gv_optim(seg)], 2, optimal=True, family="GV"))
    V.append(Variant("GV/scalar", lambda: GaussianVarCost(param=(0.0, 1.0)),
                     lambda seg: _vals(R.gv_fixed(seg, [Fr(0)], [Fr(1)])), 2, family="GV"))
    V.append(Variant("GV/percol", lambda: GaussianVarCost(param=(np.array(fl(mu)), np.array(fl(va)))),
                     lambda seg: _vals(R.gv_fixed(seg, mu, va)), 2, family="GV"))
    V.append(Variant("GV/scalar2", lambda: GaussianVarCost(param=(0.5, 4.0)),
                     lambda seg: _vals(R.gv_fixed(seg, [Fr(1, 2)], [Fr(4)])), 2, family="GV"))
    # mixed shapes: a scalar mean with per-column variances, and per-column means with a scalar variance
    V.append(Variant("GV/mean-scalar-var-percol", lambda: GaussianVarCost(param=(0.5, np.array(fl(va)))),
                     lambda seg: _vals(R.gv_fixed(seg, [Fr(1, 2)], va)), 2, family="GV"))
    V.append(Variant("GV/mean-percol-var-scalar", lambda: GaussianVarCost(param=(np.array(fl(mu)), 4.0)),
                     lambda seg: _vals(R.gv_fixed(seg, mu, [Fr(4)])), 2, family="GV"))
    V.append(Variant("Cov/opt", lambda: GaussianCovCost(), lambda seg: [R.cov_optim(seg)], p + 1, True, optimal=True, family="Cov"))
    eye = [[Fr(int(i == j)) for j in range(p)] for i in range(p)]
    V.append(Variant("Cov/scalar", lambda: GaussianCovCost(param=(0.0, 1.0)),
                     lambda seg: _vals([R.cov_fixed(seg, [Fr(0)], eye)]), p + 1, True, family="Cov"))
    V.append(Variant("Cov/diag", lambda: GaussianCovCost(param=(np.array(fl(mu)), np.array([fl(r) for r in diag]))),
                     lambda seg: _vals([R.cov_fixed(seg, mu, diag)]), p + 1, True, family="Cov"))
    V.append(Variant("Cov/spd", lambda: GaussianCovCost(param=(np.array(fl(mu)), np.array([fl(r) for r in spd]))),
                     lambda seg: _vals([R.cov_fixed(seg, mu, spd)]), p + 1, True, family="Cov"))
    # mixed shapes: a scalar mean with a full covariance matrix, and a per-column mean with a scalar (identity-scaled) covariance
    V.append(Variant("Cov/mean-scalar-cov-matrix", lambda: GaussianCovCost(param=(0.5, np.array([fl(r) for r in spd]))),
                     lambda seg: _vals([R.cov_fixed(seg, [Fr(1, 2)], spd)]), p + 1, True, family="Cov"))
    two_eye = [[Fr(2 * int(i == j)) for j in range(p)] for i in range(p)]
    V.append(Variant("Cov/mean-percol-cov-scalar", lambda: GaussianCovCost(param=(np.array(fl(mu)), 2.0)),
                     lambda seg: _vals([R.cov_fixed(seg, mu, two_eye)]), p + 1, True, family="Cov"))
    return V
