"""Self-test of the engine (MANIFEST.setup_cmd): every reference model is cross-checked
against a second, independently written formulation on a complete small space, and
deliberately wrong toy implementations must be rejected by the oracles."""

from __future__ import annotations

import itertools
import sys
import time


def t_partition():
    from props import c02
    from smc import refmodels as R

    cnt = 0
    for n, msl in ((4, 1), (5, 2), (6, 3), (5, 1)):
        m = len(c02.intervals(n, msl))
        for slacks in itertools.product((0, 1), repeat=m):
            C = c02.build_table(n, msl, slacks)
            for pen in (0, 1):
                F = R.opt_partition(C, n, msl, pen)
                for L in range(msl, n + 1):
                    assert F[L] == R.opt_partition_bruteforce(C, L, msl, pen), (n, msl, slacks, pen, L)
                    cnt += 1
            # premise holds by construction
            for s, e in c02.intervals(n, msl):
                for k in range(s + msl, e - msl + 1):
                    assert C[s][e] >= C[s][k] + C[k][e]
    return cnt


def t_penalised():
    from smc import refmodels as R

    cnt = 0
    for p in (1, 2, 3):
        for sav in itertools.product((0, 1, 3), repeat=p):
            for alpha in (0, 1):
                for betas in itertools.product((0, 1, 2), repeat=p):
                    if list(betas) != sorted(betas):  # sorted-prefix form assumes non-decreasing betas? no: any
                        pass
                    a, _ = R.penalised_saving_subsets(sav, alpha, betas)
                    b = R.penalised_saving_sorted(sav, alpha, betas)
                    assert abs(a - b) < 1e-12, (sav, alpha, betas, a, b)
                    cnt += 1
    return cnt


def t_capa():
    from smc import refmodels as R

    cnt = 0
    n = 4
    ivs = [(s, e) for s in range(n) for e in range(s + 2, n + 1)]
    for vals in itertools.product((-1, 0, 2), repeat=len(ivs)):
        PS = [[None] * (n + 1) for _ in range(n + 1)]
        for (s, e), v in zip(ivs, vals):
            PS[s][e] = v
        for PP in itertools.product((-1, 1), repeat=n):
            for msl, M in ((2, 2), (2, 3), (2, 4), (3, 4)):
                G = R.capa_opt(PS, PP, n, msl, M)
                for L in range(0, n + 1):
                    assert G[L] == R.capa_opt_bruteforce(PS, PP, L, msl, M), (vals, PP, msl, M, L)
                    cnt += 1
    return cnt


def t_runs():
    from smc import refmodels as R

    cnt = 0
    for n in range(0, 10):
        for f in itertools.product((False, True), repeat=n):
            assert R.runs_of_true(f) == R.runs_of_true_regex(f)
            cnt += 1
    return cnt


def t_greedy_spec():
    from smc import refmodels as R

    # two tied intervals with different maximisers: both outcomes must be allowed
    scores, picks, starts, ends = [2, 2], [1, 3], [0, 2], [2, 4]
    out, _, _ = R.greedy_spec_outcomes(scores, picks, starts, ends, 1, lambda pk, j: starts[j] <= pk < ends[j])
    assert out == {(1, 3)}, out
    scores, picks, starts, ends = [2, 2], [1, 2], [0, 1], [3, 4]
    out, _, _ = R.greedy_spec_outcomes(scores, picks, starts, ends, 1, lambda pk, j: starts[j] <= pk < ends[j])
    assert out == {(1,), (2,)}, out
    return 2


def t_wrong_toys():
    """Deliberately wrong PELT variants must be rejected by C02's oracle."""
    from props import c02
    from smc import core, refmodels as R

    n, msl, pen = 6, 2, 0
    m = len(c02.intervals(n, msl))
    rejected = {"eager": 0, "offbyone": 0}
    for slacks in itertools.product((0, 1), repeat=m):
        C = c02.build_table(n, msl, slacks)
        F = R.opt_partition(C, n, msl, pen)
        # toy 1: eager pruning (the defect repaired in /repo)
        opt = [-pen] + [None] * n
        for t in range(msl, 2 * msl):
            opt[t] = C[0][t]
        starts = [0]
        for t in range(2 * msl, n + 1):
            starts.append(t - msl)
            cand = [(opt[s] + C[s][t] + pen) for s in starts]
            opt[t] = min(cand)
            starts = [s for s, c in zip(starts, cand) if c <= opt[t] + pen]
        if any(opt[L] != F[L] for L in range(msl, n + 1)):
            rejected["eager"] += 1
        # toy 2: off-by-one minimum segment length
        F2 = R.opt_partition(C, n, msl + 1, pen) if n >= 2 * (msl + 1) else F
        if any(F2[L] != F[L] for L in range(msl + 1, n + 1)):
            rejected["offbyone"] += 1
    assert rejected["eager"] > 0 and rejected["offbyone"] > 0, rejected
    return sum(rejected.values())


def main():
    t0 = time.time()
    tests = [t_partition, t_penalised, t_capa, t_runs, t_greedy_spec, t_wrong_toys]
    for t in tests:
        try:
            c = t()
            print(f"selftest {t.__name__}: ok ({c} comparisons)")
        except AssertionError as e:
            print(f"selftest {t.__name__}: FAILED {e}")
            return 1
    print(f"selftest passed in {time.time()-t0:.1f}s")
    return 0


if __name__ == "__main__":
    sys.exit(main())
