"""Exact (rational arithmetic) reference for the built-in costs, computed directly from
the rows X[s:e] -- no prefix sums.  Logs are taken once, at the end, in binary64."""

from __future__ import annotations

import math
from fractions import Fraction as Fr

FLOOR = Fr(1, 10**16)
TWO_PI = 2 * math.pi


def frac_rows(X):
    return [[Fr(v) for v in row] for row in X]


def col(rows, j):
    return [r[j] for r in rows]


def l2_optim(seg):
    m = len(seg)
    out = []
    for j in range(len(seg[0])):
        c = col(seg, j)
        s = sum(c)
        out.append(sum(x * x for x in c) - s * s / m)
    return out


def l2_fixed(seg, mean):
    out = []
    for j in range(len(seg[0])):
        mu = mean[j] if len(mean) > 1 else mean[0]
        out.append(sum((x - mu) ** 2 for x in col(seg, j)))
    return out


def var_exact(seg):
    m = len(seg)
    out = []
    for j in range(len(seg[0])):
        c = col(seg, j)
        mu = sum(c) / m
        out.append(sum((x - mu) ** 2 for x in c) / m)
    return out


def gv_optim(seg):
    """Returns list of (value, exact variance)."""
    m = len(seg)
    out = []
    for v in var_exact(seg):
        vv = max(v, FLOOR)
        out.append((m * math.log(TWO_PI * float(vv)) + m, v))
    return out


def gv_fixed(seg, mean, var):
    m = len(seg)
    out = []
    for j in range(len(seg[0])):
        mu = mean[j] if len(mean) > 1 else mean[0]
        s2 = var[j] if len(var) > 1 else var[0]
        q = sum((x - mu) ** 2 for x in col(seg, j))
        out.append(m * math.log(TWO_PI * float(s2)) + float(q / s2))
    return out


# -- small exact linear algebra --------------------------------------------------------


def det(M):
    M = [r[:] for r in M]
    n = len(M)
    d = Fr(1)
    for i in range(n):
        piv = None
        for r in range(i, n):
            if M[r][i] != 0:
                piv = r
                break
        if piv is None:
            return Fr(0)
        if piv != i:
            M[i], M[piv] = M[piv], M[i]
            d = -d
        d *= M[i][i]
        for r in range(i + 1, n):
            f = M[r][i] / M[i][i]
            for c in range(i, n):
                M[r][c] -= f * M[i][c]
    return d


def inverse(M):
    n = len(M)
    A = [list(M[i]) + [Fr(int(i == j)) for j in range(n)] for i in range(n)]
    for i in range(n):
        piv = next(r for r in range(i, n) if A[r][i] != 0)
        A[i], A[piv] = A[piv], A[i]
        pv = A[i][i]
        A[i] = [x / pv for x in A[i]]
        for r in range(n):
            if r != i and A[r][i] != 0:
                f = A[r][i]
                A[r] = [x - f * y for x, y in zip(A[r], A[i])]
    return [row[n:] for row in A]


def is_spd(M):
    n = len(M)
    for k in range(1, n + 1):
        if det([row[:k] for row in M[:k]]) <= 0:
            return False
    return True


def cov_exact(seg):
    m = len(seg)
    p = len(seg[0])
    mu = [sum(col(seg, j)) / m for j in range(p)]
    return [[sum((r[a] - mu[a]) * (r[b] - mu[b]) for r in seg) / m for b in range(p)] for a in range(p)]


def cov_optim(seg):
    """Returns ('value', v) | ('must-raise',) | ('ill', None).
    must-raise: a column of the slice is constant (NumPy's covariance has an exact zero
    row, slogdet sign is 0) ; ill: exactly singular otherwise (rounding decides)."""
    m = len(seg)
    p = len(seg[0])
    S = cov_exact(seg)
    d = det(S)
    if d <= 0:
        if any(S[j][j] == 0 for j in range(p)):
            return ("must-raise", None)
        return ("ill", None)
    return ("value", m * p * math.log(TWO_PI) + m * math.log(float(d)) + p * m)


def cov_fixed(seg, mean, S):
    m = len(seg)
    p = len(seg[0])
    mu = [mean[j] if len(mean) > 1 else mean[0] for j in range(p)]
    Si = inverse(S)
    q = Fr(0)
    for r in seg:
        c = [r[j] - mu[j] for j in range(p)]
        q += sum(c[a] * Si[a][b] * c[b] for a in range(p) for b in range(p))
    return m * p * math.log(TWO_PI) + m * math.log(float(det(S))) + float(q)
