"""Small shared helpers: exact penalties, tolerance policy, alphabets."""

from __future__ import annotations

import itertools
import math

import numpy as np

TOL = 1e-9


def close(a, b, tol=TOL):
    a = float(a)
    b = float(b)
    if a == b:
        return True
    if math.isinf(a) or math.isinf(b) or math.isnan(a) or math.isnan(b):
        return False
    return abs(a - b) <= tol * max(1.0, abs(a), abs(b))


def exact_scale(target, default):
    """A float `s` with s * default == target exactly (searching +-16 ulps around
    target/default), or None.  Used to obtain exactly representable penalties /
    thresholds through the public `*_scale` hyper-parameters."""
    if target == 0:
        return 0.0
    s = target / default
    cand = [s]
    lo = hi = s
    for _ in range(16):
        lo = np.nextafter(lo, -np.inf)
        hi = np.nextafter(hi, np.inf)
        cand += [lo, hi]
    for c in cand:
        if float(c) * default == target:
            return float(c)
    return None


def seed_affine(seed):
    """Seed-selected affine relabelling (a, b) of a base alphabet x -> a + b*x.
    Fixed list; seed only picks an entry.  Base verdicts do not depend on it."""
    menu = [(1, 2), (-1, 2), (2, 3), (0.5, 1), (-2.5, 0.5), (3, 1), (1, 0.25), (-4, 3)]
    return menu[seed % len(menu)]


def matrices(alphabet, n, p):
    """All n x p matrices over the alphabet, as nested tuples, simplest first."""
    for flat in itertools.product(alphabet, repeat=n * p):
        yield tuple(tuple(flat[i * p : (i + 1) * p]) for i in range(n))


def series(alphabet, n):
    return itertools.product(alphabet, repeat=n)


def exc_name(e):
    return type(e).__name__


def structured_series(n, max_changes=2, levels=(0.0, 3.0), texture=0.25):
    """All piecewise-constant series of length n with at most `max_changes` change positions whose segments cycle
    through `levels`, plus a small deterministic texture (so that no segment is exactly constant).  Used for the
    'medium length' families: exhaustive over the change positions, not over all values."""
    tex = [texture * (((t * 7 + 3) % 5) - 2) / 2.0 for t in range(n)]
    for k in range(0, max_changes + 1):
        for cps in itertools.combinations(range(1, n), k):
            for start in range(len(levels)):
                b = (0,) + cps + (n,)
                x = []
                for i in range(len(b) - 1):
                    x += [levels[(start + i) % len(levels)]] * (b[i + 1] - b[i])
                yield cps, tuple(round(v + e, 6) for v, e in zip(x, tex))


def three_columns(xs):
    """3-column data built from one series: the series, its half-scaled reversal with a small texture, and a
    non-constant nuisance column (aggregation over ALL columns matters; a detector using only some columns differs)."""
    n = len(xs)
    return [[float(xs[i]), float(xs[n - 1 - i]) * 0.5 + 0.25 * (i % 2), 1.0 + 0.5 * ((i * 3) % 4)] for i in range(n)]


def result_survives(scorer, cuts_a, cuts_b):
    """The array returned by evaluate(cuts_a) must still hold the same values after a later evaluate(cuts_b) on the same
    fitted scorer (a returned view of an internal, reused buffer would be overwritten).  Returns (ok, before, after)."""
    r1 = scorer.evaluate(np.array(cuts_a))
    snap = np.array(r1, copy=True)
    scorer.evaluate(np.array(cuts_b))
    ok = r1.shape == snap.shape and bool(np.array_equal(r1, snap, equal_nan=True))
    return ok, snap, np.array(r1, copy=True)


def two_generic_columns(xs):
    """2-column data in which (almost) every window of 3 rows has a positive definite sample covariance: the series plus
    a texture, and a second 'generic' column.  Used for the multivariate-cost (GaussianCovCost, p >= 2) families."""
    n = len(xs)
    return [[float(xs[t]) + 0.25 * (((t * 7 + 3) % 5) - 2) / 2.0, ((t * t * 3 + t) % 7) / 4.0 + 0.5 * float(xs[n - 1 - t])] for t in range(n)]


def whole_cost(make, rows):
    """The cost of exactly these rows by the definition: a fresh cost fitted on them, evaluated on [0, len), summed over
    its output columns."""
    rows = np.asarray(rows, dtype=float)
    return float(make().fit(rows).evaluate(np.array([[0, len(rows)]])).sum())


def very_long_series(n, period=173):
    """One deterministic piecewise-constant series of length n with a level change every `period` samples (levels cycle
    through 0, 3, -2, 5) plus a small texture; for the 'very long' single cases that put block / chunk boundaries of an
    implementation (powers of two, 1000, 4096, ...) strictly inside the data."""
    levels = (0.0, 3.0, -2.0, 5.0)
    return [levels[(t // period) % 4] + 0.25 * (((t * 7 + 3) % 5) - 2) / 2.0 + 0.125 * ((t * t) % 3) for t in range(n)]
