"""Core of the `smc` bounded-exhaustive explorer: accumulators, per-case guard,
process pool, aggregation.

A property module (props/cXX.py) provides

    ID, LEVEL, RULE, ASSUMPTIONS
    shards(tier, seed)      -> list of small picklable shard descriptors
    run_shard(shard)        -> Acc   (enumerates *every* case of the shard, runs the
                                      real code on it, applies the oracle)
    replay(case)            -> list of violation dicts for one stored case
    bounds(tier, seed)      -> JSON-able description of what is exhausted

No sampling and no wall-clock truncation anywhere: a shard is a finite product
space that is enumerated to the end.
"""

from __future__ import annotations

import collections
import hashlib
import json
import multiprocessing as mp
import os
import signal
import sys
import time
import traceback

CASE_TIMEOUT_S = int(os.environ.get("VERIF_CASE_TIMEOUT", "30"))
MAX_VIOL_PER_SHARD = 40


# Optional observer of raw detector outputs (used by C04 to apply the well-formedness
# invariant to outputs produced inside the table families of other properties).
OUTPUT_HOOK = None


def emit(det_name, y, **info):
    if OUTPUT_HOOK is not None:
        OUTPUT_HOOK(det_name, y, info)


class CaseTimeout(Exception):
    pass


def _alarm(signum, frame):
    raise CaseTimeout()


class case_timer:
    """Per-case timer. A case that does not return is reported by the caller as a
    violation (a non-terminating predict satisfies no output property)."""

    timeouts = 0  # per process; after 3 cases that did not return the remaining cases are not started any
    # more (each is still recorded as a timeout violation), so that a change which makes a loop
    # non-terminating is reported within minutes instead of hanging for hours

    def __init__(self, seconds=CASE_TIMEOUT_S):
        self.seconds = seconds

    def __enter__(self):
        if case_timer.timeouts >= 3:
            raise CaseTimeout("not started: three earlier cases in this worker did not return")
        signal.signal(signal.SIGALRM, _alarm)
        signal.setitimer(signal.ITIMER_REAL, self.seconds if case_timer.timeouts == 0 else min(self.seconds, 10))

    def __exit__(self, et, ev, tb):
        signal.setitimer(signal.ITIMER_REAL, 0)
        if et is not None and issubclass(et, CaseTimeout):
            case_timer.timeouts += 1
        return False


def jsonable(x):
    import numpy as np

    if isinstance(x, dict):
        return {str(k): jsonable(v) for k, v in x.items()}
    if isinstance(x, (list, tuple, set, frozenset)):
        return [jsonable(v) for v in x]
    if isinstance(x, np.ndarray):
        return jsonable(x.tolist())
    if isinstance(x, (np.integer,)):
        return int(x)
    if isinstance(x, (np.floating,)):
        x = float(x)
    if isinstance(x, float):
        if x != x:
            return "nan"
        if x in (float("inf"), float("-inf")):
            return "inf" if x > 0 else "-inf"
        return x
    if isinstance(x, (np.bool_,)):
        return bool(x)
    if isinstance(x, (str, int, bool)) or x is None:
        return x
    try:
        from fractions import Fraction

        if isinstance(x, Fraction):
            return float(x)
    except Exception:
        pass
    return repr(x)


class Acc:
    """Accumulator of what one shard (or the whole run) covered."""

    def __init__(self):
        self.evaluations = 0
        self.nontrivial = 0
        self.counters = collections.Counter()  # named measured counts
        self.outcomes = collections.Counter()  # observed outcome classes
        self.samples = []
        self.violations = []  # dicts: kind, key, case, msg, expected, observed
        self.n_violations = 0
        self.states = 0
        self.transitions = 0
        self.extra = {}

    # -- recording ---------------------------------------------------------------
    def ev(self, n=1):
        self.evaluations += n

    def nt(self, n=1):
        self.nontrivial += n

    def count(self, name, n=1):
        self.counters[name] += n

    def outcome(self, o):
        self.outcomes[str(o)] += 1

    def sample(self, case, limit=3):
        if len(self.samples) < limit:
            self.samples.append(jsonable(case))

    def violation(self, kind, case, msg, key=None, expected=None, observed=None):
        self.n_violations += 1
        if len(self.violations) < MAX_VIOL_PER_SHARD or not any(
            v["kind"] == kind and v["key"] == jsonable(key or {}) for v in self.violations
        ):
            self.violations.append(
                {
                    "kind": kind,
                    "key": jsonable(key or {}),
                    "case": jsonable(case),
                    "msg": str(msg)[:2000],
                    "expected": jsonable(expected),
                    "observed": jsonable(observed),
                }
            )

    # -- merging -----------------------------------------------------------------
    def merge(self, other: "Acc"):
        self.evaluations += other.evaluations
        self.nontrivial += other.nontrivial
        self.counters.update(other.counters)
        self.outcomes.update(other.outcomes)
        for s in other.samples:
            if len(self.samples) < 8:
                self.samples.append(s)
        self.violations.extend(other.violations)
        self.n_violations += other.n_violations
        self.states += other.states
        self.transitions += other.transitions
        for k, v in other.extra.items():
            if k not in self.extra:
                self.extra[k] = v
            elif isinstance(v, (int, float)) and isinstance(self.extra[k], (int, float)):
                self.extra[k] = max(self.extra[k], v)
            elif isinstance(v, dict) and isinstance(self.extra[k], dict):
                self.extra[k].update(v)
            elif isinstance(v, list) and isinstance(self.extra[k], list):
                self.extra[k].extend(v)
        return self


def sig_of(v):
    s = json.dumps([v["kind"], v["key"]], sort_keys=True)
    return hashlib.sha1(s.encode()).hexdigest()[:12]


# -------------------------------------------------------------------------------------
# worker side


def _worker(args):
    modname, shard = args
    import importlib

    mod = importlib.import_module(modname)
    t0 = time.time()
    try:
        acc = mod.run_shard(shard)
    except Exception:
        acc = Acc()
        acc.violation(
            "harness-error",
            {"shard": jsonable(shard)},
            "shard raised: " + traceback.format_exc()[-1500:],
            key={"shard": str(shard)[:200]},
        )
    acc.extra.setdefault("max_shard_s", 0)
    acc.extra["max_shard_s"] = max(acc.extra["max_shard_s"], round(time.time() - t0, 2))
    return acc


def explore(modname, shards, jobs=None):
    jobs = jobs or int(os.environ.get("VERIF_JOBS", "16"))
    jobs = max(1, min(jobs, len(shards)))
    total = Acc()
    if jobs == 1:
        for sh in shards:
            total.merge(_worker((modname, sh)))
        return total
    ctx = mp.get_context("fork")
    with ctx.Pool(jobs, maxtasksperchild=None) as pool:
        for acc in pool.imap_unordered(_worker, [(modname, sh) for sh in shards], chunksize=1):
            total.merge(acc)
    return total


def chunk(seq, k):
    """Static sharding of a list into k interleaved shards (deterministic)."""
    seq = list(seq)
    k = max(1, min(k, len(seq)))
    return [seq[i::k] for i in range(k)]
