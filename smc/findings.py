"""Known-findings protocol.

/verif/known_findings.json (committed, never written at run time) holds
  {"findings": [{"id":..., "property":"Cxx", "status":"open", "kind":..., "match":{key: value,...},
                 "what": "..."}],
   "fixed":    ["fixed: property=Cxx <commit> <what failed>", ...]}
A violation is a *known finding* iff an open entry of the same property has the same
`kind` and every (key, value) of `match` equals the violation's key field.  Everything
else is reported.  `fixed` entries suppress nothing.
"""

from __future__ import annotations

import json
import os

VERIF = os.path.dirname(os.path.dirname(os.path.abspath(__file__)))
PATH = os.path.join(VERIF, "known_findings.json")


def load():
    if not os.path.exists(PATH):
        return []
    with open(PATH) as f:
        return [x for x in json.load(f).get("findings", []) if x.get("status", "open") == "open"]


def classify(pid, violations):
    entries = [e for e in load() if e["property"] == pid]
    known, unknown = {}, []
    for v in violations:
        hit = None
        for e in entries:
            if e["kind"] == v["kind"] and all(v["key"].get(k) == val for k, val in e["match"].items()):
                hit = e
                break
        if hit is None:
            unknown.append(v)
        else:
            known[hit["id"]] = hit
    stale = [e for e in entries if e["id"] not in known]
    return list(known.values()), unknown, stale
