"""Writes /verif/evidence/<id>.json from measured numbers of the run."""

from __future__ import annotations

import json
import os

VERIF = os.path.dirname(os.path.dirname(os.path.abspath(__file__)))
SCHEMA = "/root/.vp/EVIDENCE.schema.json"
SCHEMA_COPY = os.path.join(VERIF, "smc", "EVIDENCE.schema.json")


def write(pid, mod, tier, seed, acc, wall, n_unknown, known, src):
    level = getattr(mod, "LEVEL", "exploration")
    cov = {
        "evaluations": int(acc.evaluations),
        "distinct_nontrivial": int(acc.nontrivial),
        "rule": getattr(mod, "RULE", ""),
        "samples": acc.samples[:8] or [{"note": "no sample recorded"}],
        "exhaustive": bool(acc.extra.get("exhaustive", True)),
        "bounds": mod.bounds(tier, seed) if hasattr(mod, "bounds") else {},
        "distinct_observed_outcomes": len(acc.outcomes),
        "outcome_histogram_top": dict(acc.outcomes.most_common(12)),
        "counters": dict(sorted(acc.counters.items())),
        "source_root": src,
        "known_findings_reproduced": [k["id"] for k in known],
    }
    if level == "model_checking":
        cov["states"] = int(acc.states)
        cov["transitions"] = int(acc.transitions)
        cov["traces_validated_against_impl"] = int(
            acc.extra.get("traces_validated", acc.transitions)
        )
    for k, v in acc.extra.items():
        if k not in ("exhaustive", "traces_validated"):
            cov.setdefault(k, v)
    ev = {
        "property_id": pid,
        "tier": tier,
        "seed": int(seed),
        "level": level,
        "coverage": cov,
        "assumptions": list(getattr(mod, "ASSUMPTIONS", [])),
        "wall_s": round(float(wall), 2),
        "violations": int(n_unknown),
    }
    try:
        import jsonschema

        path = SCHEMA if os.path.exists(SCHEMA) else SCHEMA_COPY
        with open(path) as f:
            jsonschema.validate(ev, json.load(f))
    except ImportError:
        pass
    except Exception as e:  # still write what was measured; never invent numbers to satisfy the schema
        print(f"WARNING: evidence for {pid} does not validate against the schema: {str(e).splitlines()[0]}")
    # evidence/ only ever holds runs against /repo itself; runs against a scratch source root
    # (VERIF_SRC, used by the mutation work) go to the ignored .scratch/ directory
    sub = "evidence" if os.path.realpath(src) == os.path.realpath("/repo") else os.path.join(".scratch", "evidence")
    os.makedirs(os.path.join(VERIF, sub), exist_ok=True)
    out = os.path.join(VERIF, sub, f"{pid}.json")
    with open(out, "w") as f:
        json.dump(ev, f, indent=1, sort_keys=True)
    return out
