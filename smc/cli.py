"""Command line:  ./check Cxx [--tier quick|thorough]  |  --replay FILE  |  --selftest"""

from __future__ import annotations

import argparse
import importlib
import json
import os
import sys
import time

VERIF = os.path.dirname(os.path.dirname(os.path.abspath(__file__)))

# Source override used only by the mutation driver on scratch copies.
_src = os.environ.get("VERIF_SRC")
if _src:
    sys.path.insert(0, _src)

from smc import core, evidence, findings  # noqa: E402


def _check_source():
    import skchange

    root = os.path.dirname(os.path.dirname(os.path.abspath(skchange.__file__)))
    want = os.path.abspath(_src) if _src else "/repo"
    if os.path.realpath(root) != os.path.realpath(want):
        print(f"ERROR: skchange imported from {root}, expected {want}")
        sys.exit(2)
    return root


def run_check(pid, tier, seed):
    t0 = time.time()
    src = _check_source()
    mod = importlib.import_module(f"props.{pid.lower()}")
    shards = mod.shards(tier, seed)
    acc = core.explore(mod.__name__, shards)
    if hasattr(mod, "finalize"):
        mod.finalize(acc, tier, seed)
    known, unknown, stale = findings.classify(pid, acc.violations)
    for k in known:
        print(f"KNOWN-FINDING: property={pid} {k['what']}")
    replay_paths = []
    seen = set()
    for v in unknown:
        sig = core.sig_of(v)
        if sig in seen:
            continue
        seen.add(sig)
        path = os.path.join(VERIF, "replays", f"{pid}-{sig}.json")
        with open(path, "w") as f:
            json.dump({"property": pid, "tier": tier, "seed": seed, **v}, f, indent=1, sort_keys=True)
        replay_paths.append(path)
        print(f"VIOLATION property={pid} replay={path}")
        print(f"  kind={v['kind']} key={json.dumps(v['key'], sort_keys=True)}")
        print(f"  {v['msg'][:600]}")
    wall = time.time() - t0
    evidence.write(pid, mod, tier, seed, acc, wall, n_unknown=len(seen), known=known, src=src)
    cov = f"evaluations={acc.evaluations} nontrivial={acc.nontrivial} outcomes={len(acc.outcomes)}"
    if acc.states:
        cov += f" states={acc.states} transitions={acc.transitions}"
    print(f"{pid} tier={tier} seed={seed} {cov} violations={len(seen)} known={len(known)} wall={wall:.1f}s")
    return 1 if seen else 0


def run_replay(path):
    _check_source()
    with open(path) as f:
        rec = json.load(f)
    pid = rec["property"]
    mod = importlib.import_module(f"props.{pid.lower()}")
    out1 = mod.replay(rec["case"])
    out2 = mod.replay(rec["case"])
    norm = lambda vs: json.dumps([[v["kind"], v["key"], v["msg"]] for v in vs], sort_keys=True)  # noqa: E731
    if norm(out1) != norm(out2):
        print(f"ERROR: replay of {path} is not deterministic")
        return 2
    if not out1:
        print(f"replay {path}: property {pid} holds on this case")
        return 0
    for v in out1:
        print(f"VIOLATION property={pid} replay={path}")
        print(f"  kind={v['kind']} key={json.dumps(v['key'], sort_keys=True)}")
        print(f"  {v['msg'][:1500]}")
    return 1


def main():
    ap = argparse.ArgumentParser()
    ap.add_argument("prop", nargs="?")
    ap.add_argument("--tier", default=os.environ.get("VERIF_TIER", "quick"), choices=["quick", "thorough"])
    ap.add_argument("--replay")
    ap.add_argument("--selftest", action="store_true")
    a = ap.parse_args()
    seed = int(os.environ.get("VERIF_SEED", "0") or 0)
    if a.selftest:
        from smc import selftest

        sys.exit(selftest.main())
    if a.replay:
        sys.exit(run_replay(a.replay))
    if not a.prop:
        ap.error("property id required")
    sys.exit(run_check(a.prop.upper(), a.tier, seed))


if __name__ == "__main__":
    main()
