"""Environment scorers: user-defined subclasses of skchange's public base classes whose
answers are read from a table owned by the explorer (Mode B), plus encoding and
recording variants and a change detector that returns given changepoints.

They are ordinary user extensions (the documented extension point); the detectors
under test only ever see data through `scorer.evaluate(cuts)`, so a table scorer
closes the system: the explorer owns every answer the search procedure receives.
"""

from __future__ import annotations

import numpy as np
import pandas as pd

from skchange.anomaly_scores.base import BaseLocalAnomalyScore, BaseSaving
from skchange.change_detectors.base import ChangeDetector
from skchange.change_scores.base import BaseChangeScore
from skchange.costs.base import BaseCost


class _Logging:
    def _init_log(self):
        self.log = []
        self.n_fit = 0

    def _log(self, cuts):
        self.log.append(np.array(cuts, copy=True))


class TableCost(BaseCost, _Logging):
    """Cost whose value on [s, e) is table[s, e, :] (one column per variable)."""

    def __init__(self, table=None, msize=1, param=None, ftable=None):
        self.table = table
        self.msize = msize
        self.ftable = ftable
        super().__init__(param)
        self._init_log()

    @property
    def min_size(self):
        return self.msize

    def _fit(self, X, y=None):
        self.n_fit += 1
        return self

    def _evaluate_optim_param(self, starts, ends):
        self._log(np.column_stack((starts, ends)))
        return np.array(self.table[starts, ends, :], dtype=float)

    def _evaluate_fixed_param(self, starts, ends):
        if self.ftable is None:
            return self._evaluate_optim_param(starts, ends)
        self._log(np.column_stack((starts, ends)))
        return np.array(self.ftable[starts, ends, :], dtype=float)


class TableSaving(BaseSaving, _Logging):
    def __init__(self, table=None, msize=1, nparam=1):
        self.table = table
        self.msize = msize
        self.nparam = nparam
        super().__init__()
        self._init_log()

    @property
    def min_size(self):
        return self.msize

    def get_param_size(self, p):
        return self.nparam * p

    def _fit(self, X, y=None):
        self.n_fit += 1
        return self

    def _evaluate(self, cuts):
        self._log(cuts)
        return np.array(self.table[cuts[:, 0], cuts[:, 1], :], dtype=float)


class TableChangeScore(BaseChangeScore, _Logging):
    """Change score whose value on (s, k, e) is table[s, k, e, :]."""

    def __init__(self, table=None, msize=1):
        self.table = table
        self.msize = msize
        super().__init__()
        self._init_log()

    @property
    def min_size(self):
        return self.msize

    def _fit(self, X, y=None):
        self.n_fit += 1
        return self

    def _evaluate(self, cuts):
        self._log(cuts)
        return np.array(self.table[cuts[:, 0], cuts[:, 1], cuts[:, 2], :], dtype=float)


class TableLocalScore(BaseLocalAnomalyScore, _Logging):
    """Local anomaly score whose value on (s, a, b, e) is table[s, a, b, e, :]."""

    def __init__(self, table=None, msize=1):
        self.table = table
        self.msize = msize
        super().__init__()
        self._init_log()

    @property
    def min_size(self):
        return self.msize

    def _fit(self, X, y=None):
        self.n_fit += 1
        return self

    def _evaluate(self, cuts):
        self._log(cuts)
        return np.array(
            self.table[cuts[:, 0], cuts[:, 1], cuts[:, 2], cuts[:, 3], :], dtype=float
        )


class EncodingChangeScore(BaseChangeScore, _Logging):
    """Returns an injective integer code of the cut it was asked about, so the
    detector's output reveals exactly which samples entered which window."""

    def __init__(self, base=64, msize=1):
        self.base = base
        self.msize = msize
        super().__init__()
        self._init_log()

    @property
    def min_size(self):
        return self.msize

    def _fit(self, X, y=None):
        self.n_fit += 1
        return self

    def _evaluate(self, cuts):
        self._log(cuts)
        b = self.base
        code = 1 + cuts[:, 0] + b * cuts[:, 1] + b * b * cuts[:, 2]
        return code.astype(float).reshape(-1, 1)

    @staticmethod
    def decode(code, base=64):
        c = int(round(code)) - 1
        return (c % base, (c // base) % base, c // (base * base))


class FixedChangeDetector(ChangeDetector):
    """User-defined change detector that reports the changepoints it was given
    (those that fall strictly inside the data)."""

    _tags = {"capability:missing_values": False, "capability:multivariate": True, "fit_is_empty": False}

    def __init__(self, cpts=()):
        self.cpts = cpts
        super().__init__()

    def _fit(self, X, y=None):
        self.n_fit_ = getattr(self, "n_fit_", 0) + 1
        return self

    def _predict(self, X):
        n = len(X)
        return ChangeDetector._format_sparse_output([int(c) for c in self.cpts if 0 < c < n])


# ---------------------------------------------------------------------------------
# order-invariant user cost computed from the rows themselves (C06, C12)


class RowFuncCost(BaseCost):
    """User cost: sum over rows of |x - location| per column (depends only on the
    multiset of rows); optimal parameter = column median (a true minimiser, so the
    inequalities of C06 apply); fixed `param` = location."""

    def __init__(self, param=None, weight=1.0):
        self.weight = weight  # a hyper-parameter besides `param`: adapters must carry it over
        super().__init__(param)

    def _fit(self, X, y=None):
        self.X_ = np.asarray(X, dtype=float).reshape(len(X), -1)
        return self

    def _one(self, seg):
        loc = np.median(seg, axis=0) if self.param is None else np.asarray(self.param, dtype=float)
        return self.weight * np.abs(seg - loc).sum(axis=0)

    def _evaluate_optim_param(self, starts, ends):
        return np.array([self._one(self.X_[s:e]) for s, e in zip(starts, ends)]).reshape(len(starts), -1)

    def _evaluate_fixed_param(self, starts, ends):
        return self._evaluate_optim_param(starts, ends)


def zeros_frame(n, p=1):
    return pd.DataFrame(np.zeros((n, p)))
