"""Shared helpers about detectors: index kinds, containers, constructors with low
thresholds, well-formedness invariant (C04) and the positional labelling model (C05)."""

from __future__ import annotations

import numpy as np
import pandas as pd

INDEX_KINDS = ("range", "offset", "step2", "datetime", "period")


# further supported index kinds, used on reduced families (probed on the pinned tree: all accepted; a decreasing
# RangeIndex is rejected by sktime's input check and therefore not "supported")
INDEX_KINDS_EXTRA = ("tz", "irregular", "named", "int64", "periodQ", "zstep3", "tzfall")


def make_index(kind, n):
    if kind == "tz":
        return pd.date_range("2020-03-28", periods=n, freq="12h", tz="Europe/Oslo")  # crosses a DST change
    if kind == "irregular":
        return pd.DatetimeIndex(pd.to_datetime("2020-01-01") + pd.to_timedelta(np.cumsum(1 + (np.arange(n) * 7) % 5), unit="D"))
    if kind == "named":
        return pd.RangeIndex(n, name="t")
    if kind == "int64":
        return pd.Index(np.cumsum(1 + (np.arange(n) * 3) % 4) + 2)
    if kind == "tzfall":  # hourly across the autumn change of a DST zone: the local wall-clock hour 02:00 occurs twice
        return pd.date_range("2023-10-29 00:00", periods=n, freq="h", tz="Europe/Oslo")
    if kind == "zstep3":  # starts at 0 like the default index, but its labels are NOT positions
        return pd.RangeIndex(0, 3 * n, 3)
    if kind == "periodQ":
        return pd.period_range("2020Q1", periods=n, freq="Q")
    if kind == "range":
        return pd.RangeIndex(n)
    if kind == "offset":
        return pd.RangeIndex(5, 5 + n)
    if kind == "step2":
        return pd.RangeIndex(3, 3 + 2 * n, 2)
    if kind == "datetime":
        return pd.date_range("2020-01-01", periods=n, freq="D")
    if kind == "period":
        return pd.period_range("2020-01", periods=n, freq="M")
    raise KeyError(kind)


COLUMN_KINDS = ("default", "str", "revint", "offint")


def column_labels(cols, p):
    """default: 0..p-1; str: 'va', 'vb', ...; revint: the integers p-1..0 (integer labels that are valid POSITIONS of other
    columns); offint: 1..p (integer labels, one of which is not a position at all)."""
    if cols == "default":
        return list(range(p))
    if cols == "revint":
        return list(range(p - 1, -1, -1))
    if cols == "offint":
        return list(range(1, p + 1))
    return [f"v{chr(97 + j)}" for j in range(p)]


def frame(X, kind="range", cols="default"):
    X = np.asarray(X, dtype=float)
    if X.ndim == 1:
        X = X.reshape(-1, 1)
    n, p = X.shape
    return pd.DataFrame(X, index=make_index(kind, n), columns=column_labels(cols, p))


# ---------------------------------------------------------------------------------
# detector factories with thresholds low enough that detections are abundant

DETECTORS = ("PELT", "MovingWindow", "SeededBinarySegmentation", "CAPA", "MVCAPA", "CircularBinarySegmentation",
             "StatThresholdAnomaliser")


def make_detector(name, **kw):
    import skchange.anomaly_detectors as ad
    import skchange.change_detectors as cd
    from skchange.costs import L2Cost

    if name == "PELT":
        d = dict(cost=L2Cost(), penalty_scale=0.05, min_segment_length=1)
        d.update(kw)
        return cd.PELT(**d)
    if name == "MovingWindow":
        d = dict(bandwidth=2, threshold_scale=0.1)
        d.update(kw)
        return cd.MovingWindow(**d)
    if name == "SeededBinarySegmentation":
        d = dict(threshold_scale=0.3, min_segment_length=1, max_interval_length=20, growth_factor=1.5)
        d.update(kw)
        return cd.SeededBinarySegmentation(**d)
    if name == "CAPA":
        d = dict(collective_penalty_scale=0.1, point_penalty_scale=0.05, min_segment_length=2, max_segment_length=100)
        d.update(kw)
        return ad.CAPA(**d)
    if name == "MVCAPA":
        d = dict(collective_penalty_scale=0.1, point_penalty_scale=0.1, min_segment_length=2, max_segment_length=100)
        d.update(kw)
        return ad.MVCAPA(**d)
    if name == "CircularBinarySegmentation":
        d = dict(threshold_scale=0.05, min_segment_length=1, max_interval_length=20, growth_factor=1.5)
        d.update(kw)
        return ad.CircularBinarySegmentation(**d)
    if name == "StatThresholdAnomaliser":
        d = dict(change_detector=cd.PELT(cost=L2Cost(), penalty_scale=0.05, min_segment_length=1), stat=np.mean,
                 stat_lower=1.0, stat_upper=3.0)
        d.update(kw)
        return ad.StatThresholdAnomaliser(**d)
    raise KeyError(name)


def kind_of(name):
    if name in ("PELT", "MovingWindow", "SeededBinarySegmentation"):
        return "change"
    if name == "MVCAPA":
        return "subset"
    return "collective"


# ---------------------------------------------------------------------------------
# well-formedness of sparse output (C04)


def sparse_events(y, kind):
    """Extract plain python events from a sparse output frame."""
    if kind == "change":
        return [int(c) for c in y["ilocs"]]
    iv = y["ilocs"].array
    ev = [(int(a.left), int(a.right)) for a in y["ilocs"]]
    if kind == "subset":
        return [(s, e, tuple(int(c) for c in cols)) for (s, e), cols in zip(ev, y["icolumns"])]
    return ev


def wellformed(y, kind, n, p=1, msl=None, M=None, band=None, cbs=False, det=None):
    """Returns a list of problems (empty = well-formed) for a sparse output frame."""
    probs = []
    if not isinstance(y, pd.DataFrame):
        return [f"output is {type(y).__name__}, not a DataFrame"]
    if not (isinstance(y.index, pd.RangeIndex) and y.index.start == 0 and y.index.step == 1 and len(y.index) == len(y)):
        if list(y.index) != list(range(len(y))):
            probs.append(f"index {list(y.index)[:5]} is not 0..K-1")
    if "ilocs" not in y.columns:
        return probs + ["no 'ilocs' column"]
    if kind == "change":
        # "integers": any integer dtype satisfies the statement (int64 is what the pinned tree returns)
        if not (pd.api.types.is_integer_dtype(y["ilocs"].dtype) and not pd.api.types.is_bool_dtype(y["ilocs"].dtype)):
            probs.append(f"ilocs dtype {y['ilocs'].dtype} is not an integer dtype")
        c = [int(v) for v in y["ilocs"]]
        if any(c[i + 1] <= c[i] for i in range(len(c) - 1)):
            probs.append(f"changepoints {c} not strictly increasing")
        if any(not (1 <= v <= n - 1) for v in c):
            probs.append(f"changepoints {c} outside [1, n-1] with n={n}")
        b = [0] + c + [n]
        if msl is not None and any(b[i + 1] - b[i] < msl for i in range(len(b) - 1)):
            probs.append(f"changepoints {c} leave a segment shorter than min_segment_length={msl} (n={n})")
        if band is not None and any(not (band <= v <= n - band) for v in c):
            probs.append(f"changepoints {c} outside [bandwidth, n-bandwidth] (b={band}, n={n})")
        return probs
    if "labels" not in y.columns:
        probs.append("no 'labels' column")
    elif list(y["labels"]) != list(range(1, len(y) + 1)):
        probs.append(f"labels {list(y['labels'])} are not 1..K")
    if len(y):
        if not isinstance(y["ilocs"].dtype, pd.IntervalDtype):
            return probs + [f"ilocs dtype {y['ilocs'].dtype} is not an interval dtype"]
        if y["ilocs"].array.closed != "left":
            probs.append(f"intervals closed='{y['ilocs'].array.closed}', not left")
        if not pd.api.types.is_integer_dtype(y["ilocs"].dtype.subtype):
            probs.append(f"interval subtype {y['ilocs'].dtype.subtype} is not an integer dtype")
    ev = [(int(a.left), int(a.right)) for a in y["ilocs"]]
    last = 0
    for s, e in ev:
        if e <= s:
            probs.append(f"empty or reversed interval [{s},{e})")
        if s < last:
            probs.append(f"intervals {ev} not sorted / not disjoint")
            break
        if s < 0 or e > n:
            probs.append(f"interval [{s},{e}) outside [0,{n}]")
        last = e
    for s, e in ev:
        L = e - s
        if cbs:
            if msl is not None and L < msl:
                probs.append(f"anomaly [{s},{e}) shorter than min_segment_length={msl}")
            if not (0 < s and e < n):
                probs.append(f"anomaly [{s},{e}) not strictly inside [0,{n}]")
        elif msl is not None and M is not None:
            if L != 1 and not (msl <= L <= M):
                probs.append(f"anomaly [{s},{e}) has length {L}, not 1 and not in [{msl},{M}]")
    if kind == "subset":
        if "icolumns" not in y.columns:
            probs.append("no 'icolumns' column")
        else:
            for cols in y["icolumns"]:
                cl = [int(c) for c in cols]
                if len(cl) == 0 or len(set(cl)) != len(cl) or any(not (0 <= c < p) for c in cl):
                    probs.append(f"icolumns {cl} not a non-empty list of distinct positions in 0..{p-1}")
    return probs


# ---------------------------------------------------------------------------------
# positional labelling model (C05)


def dense_model(events, kind, n, p=1):
    if kind == "change":
        lab = np.zeros(n, dtype=np.int64)
        b = [0] + list(events) + [n]
        for i in range(len(b) - 1):
            lab[b[i]:b[i + 1]] = i
        return lab.reshape(-1, 1)
    if kind == "collective":
        lab = np.zeros(n, dtype=np.int64)
        for i, (s, e) in enumerate(events):
            lab[s:e] = i + 1
        return lab.reshape(-1, 1)
    lab = np.zeros((n, p), dtype=np.int64)
    for i, (s, e, cols) in enumerate(events):
        for c in cols:
            lab[s:e, c] = i + 1
    return lab
