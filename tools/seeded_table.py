"""Prints a markdown table of the recorded seeded changes (/verif/seeded/*/meta.json) and of the
hand-written mutant catalogue (/verif/mutants/*/meta.json).  Usage: python3 tools/seeded_table.py"""

import json
import os

VERIF = os.path.dirname(os.path.dirname(os.path.abspath(__file__)))


def main():
    import io
    import sys

    if "--update" in sys.argv:
        buf = io.StringIO()
        old = sys.stdout
        sys.stdout = buf
        try:
            table()
        finally:
            sys.stdout = old
        path = os.path.join(VERIF, "DESIGN.md")
        s = open(path).read()
        a = s.index("<!-- SEEDED-TABLE-BEGIN -->") + len("<!-- SEEDED-TABLE-BEGIN -->")
        b = s.index("<!-- SEEDED-TABLE-END -->")
        open(path, "w").write(s[:a] + "\n" + buf.getvalue() + s[b:])
        print("DESIGN.md updated")
    else:
        table()


def table():
    print("| id | breaks | what the change is | what it needs to manifest | which check catches it |")
    print("|---|---|---|---|---|")
    d = os.path.join(VERIF, "seeded")
    for i in sorted(os.listdir(d), key=lambda x: (int("".join(ch for ch in x.split("-")[0] if ch.isdigit()) or 0), x)):
        p = os.path.join(d, i, "meta.json")
        if not os.path.exists(p):
            continue
        m = json.load(open(p))
        print(f"| {i} | {m['property']} | {m['change']} | {m['needs']} | {m['caught']} |")
    print()
    print("| mutant | breaks | needs | repository suite | caught by (quick) |")
    print("|---|---|---|---|---|")
    d = os.path.join(VERIF, "mutants")
    for i in sorted(os.listdir(d)):
        p = os.path.join(d, i, "meta.json")
        if not os.path.exists(p):
            continue
        m = json.load(open(p))
        print(f"| {i} | {m['property']} | {m['needs']} | {m.get('repository_suite_with_change', '?').split(' (')[0]} | {', '.join(m['detected_by'])} |")


if __name__ == "__main__":
    main()
