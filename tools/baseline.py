"""Run the repository's pinned test suite (guard OFF) and compare with BASELINE.json.
Usage: /venv/bin/python tools/baseline.py [repo_dir]   -> exit 0 iff all 906 stable tests pass."""
import json, os, subprocess, sys, tempfile, xml.etree.ElementTree as ET
repo = sys.argv[1] if len(sys.argv) > 1 else "/repo"
base = json.load(open("/root/.vp/BASELINE.json"))
with tempfile.TemporaryDirectory() as d:
    jx = os.path.join(d, "j.xml")
    env = dict(os.environ); env.pop("SKCHANGE_VERIF", None); env["PYTHONDONTWRITEBYTECODE"] = "1"
    subprocess.run(["/venv/bin/python", "-m", "pytest", "-q", "-p", "no:cacheprovider", "--timeout=900",
                    "--continue-on-collection-errors", "-n", "8", f"--junitxml={jx}"], cwd=repo, env=env,
                   stdout=subprocess.DEVNULL, stderr=subprocess.DEVNULL)
    passed = set()
    for tc in ET.parse(jx).getroot().iter("testcase"):
        if not any(ch.tag in ("failure", "error", "skipped") for ch in tc):
            passed.add(f"{tc.get('classname')}::{tc.get('name')}")
missing = [t for t in base["stable_pass"] if t not in passed]
print(f"baseline: {len(base['stable_pass']) - len(missing)}/{len(base['stable_pass'])} stable tests pass; total passed {len(passed)}")
for t in missing[:20]:
    print("  MISSING", t)
sys.exit(1 if missing else 0)
