"""Creates the hand-written mutant catalogue /verif/mutants/<name>/{patch.diff,meta.json}
from (file, old, new) edits.  Each patch is produced with git diff on /repo and /repo is
restored immediately.  Usage: /venv/bin/python tools/mkmutants.py"""

import json
import os
import subprocess
import sys

VERIF = os.path.dirname(os.path.dirname(os.path.abspath(__file__)))
OUT = os.path.join(VERIF, "mutants")

M = [
    # name, property, detected_by, file, old, new, note
    ("c01-l2fixed-first-mean", "C01", ["C01"], "skchange/costs/l2_cost.py",
     "    costs = partial_sums2 - 2 * mean * partial_sums + n * mean**2\n",
     "    costs = partial_sums2 - 2 * mean * partial_sums + n * mean[0] ** 2\n",
     "per-column fixed mean: constant term uses the first column's mean (needs per-column means that differ)"),
    ("c01-gv-fixed-var-broadcast", "C01", ["C01"], "skchange/costs/gaussian_var_cost.py",
     "    log_likelihood = -n * np.log(2 * np.pi * var) - quadratic_form / var\n",
     "    log_likelihood = -n * np.log(2 * np.pi * var[0]) - quadratic_form / var\n",
     "per-column fixed variance: log term uses the first column's variance"),
    ("c02-pelt-first-segment-penalised", "C02", ["C02"], "skchange/change_detectors/pelt.py",
     "    opt_cost = np.concatenate((np.array([-penalty]), np.zeros(num_obs)))\n",
     "    opt_cost = np.concatenate((np.array([0.0]), np.zeros(num_obs)))\n",
     "optimal cost of multi-segment prefixes is charged one penalty too many"),
    ("c02-pelt-prune-one-step-early", "C02", ["C02"], "skchange/change_detectors/pelt.py",
     "        if len(pending_pruned_starts) >= min_segment_length:\n",
     "        if len(pending_pruned_starts) >= max(1, min_segment_length - 1):\n",
     "pruning applied one step too early (needs min_segment_length >= 2 and a tie-laden cost table)"),
    ("c03-capa-max-length-off-by-one", "C03", ["C03", "C04"], "skchange/anomaly_detectors/mvcapa.py",
     "        starts = starts[starts >= t - max_segment_length + 2]\n",
     "        starts = starts[starts >= t - max_segment_length + 1]\n",
     "collective anomalies of length max_segment_length + 1 become possible"),
    ("c03-capa-prune-without-penalty", "C03", ["C03"], "skchange/anomaly_detectors/mvcapa.py",
     "        saving_too_low = candidate_savings + penalty_sum < opt_savings[t + 1]\n",
     "        saving_too_low = candidate_savings < opt_savings[t + 1]\n",
     "pruning forgets the penalty slack"),
    ("c07-sbs-removal-excludes-last", "C07", ["C07"], "skchange/change_detectors/seeded_binseg.py",
     "        scores[(cpt >= starts) & (cpt <= ends - 1)] = 0.0\n",
     "        scores[(cpt >= starts) & (cpt < ends - 1)] = 0.0\n",
     "an interval whose last sample is the changepoint is not discarded"),
    ("c07-sbs-threshold-geq", "C07", ["C07"], "skchange/change_detectors/seeded_binseg.py",
     "    while np.any(scores > threshold):\n",
     "    while np.any(scores >= threshold) and np.any(scores > 0):\n",
     "scores equal to the threshold are detected"),
    ("c07-sbs-maximiser-offset", "C07", ["C07"], "skchange/change_detectors/seeded_binseg.py",
     "        maximizers[i] = splits[0] + argmax\n",
     "        maximizers[i] = start + min_segment_length + argmax - (1 if argmax == splits.size - 1 and splits.size > 2 else 0)\n",
     "maximiser off by one when it is the last admissible split of an interval with > 2 splits"),
    ("c08-mw-run-length-strict", "C08", ["C08"], "skchange/change_detectors/moving_window.py",
     "        if end - start >= min_detection_interval:\n",
     "        if end - start > min_detection_interval - (min_detection_interval == 1):\n",
     "runs of exactly min_detection_interval (>= 2) exceedances are dropped"),
    ("c08-mw-last-position-dropped", "C08", ["C08"], "skchange/change_detectors/moving_window.py",
     "    splits = np.arange(bandwidth, n - bandwidth + 1)\n",
     "    splits = np.arange(bandwidth, n - bandwidth + (bandwidth == 1))\n",
     "the last admissible position t = n - b is not scored for bandwidth >= 2"),
    ("c09-cbs-overlap-geq", "C09", ["C09"], "skchange/anomaly_detectors/circular_binseg.py",
     "        scores[(anomaly_end > starts) & (anomaly_start < ends)] = 0.0\n",
     "        scores[(anomaly_end >= starts) & (anomaly_start < ends)] = 0.0\n",
     "candidates that merely touch the detected anomaly are discarded too"),
    ("c09-cbs-baseline-condition", "C09", ["C09"], "skchange/anomaly_detectors/circular_binseg.py",
     "            if baseline_n >= min_segment_length:\n",
     "            if baseline_n >= min_segment_length or i - interval_start >= 2:\n",
     "inner intervals with too few surrounding samples are admitted"),
    ("c10-l2cost-cache-by-shape", "C10", ["C10"], "skchange/costs/l2_cost.py",
     "        self._mean = self._check_param(self.param, X)\n\n        self.sums_ = col_cumsum(X, init_zero=True)\n",
     "        self._mean = self._check_param(self.param, X)\n\n        if getattr(self, \"sums_\", None) is not None and self.sums_.shape == (X.shape[0] + 1, X.shape[1]) and self.sums_[-1, 0] == X[:, 0].sum():\n            return self\n        self.sums_ = col_cumsum(X, init_zero=True)\n",
     "prefix sums are reused when the new data has the same shape and the same first-column total"),
    ("c10-mw-scores-not-recomputed", "C10", ["C10"], "skchange/change_detectors/moving_window.py",
     "        self.scores = self.transform_scores(X)\n",
     "        if getattr(self, \"scores\", None) is None or len(self.scores) != len(X):\n            self.scores = self.transform_scores(X)\n",
     "predict reuses the scores of the previous predict when the length matches"),
    ("c06-cusum-weights-swapped", "C06", ["C06", "C12"], "skchange/change_scores/cusum.py",
     "    after_weight = np.sqrt(before_n / (n * after_n)).reshape(-1, 1)\n",
     "    after_weight = np.sqrt(after_n / (n * before_n)).reshape(-1, 1)\n",
     "both sums weighted with the before-weight (wrong unless the two parts have equal length)"),
    ("c06-local-score-left-only", "C06", ["C06"], "skchange/anomaly_scores/from_cost.py",
     "            surrounding_data = np.concatenate((before_data, after_data))\n",
     "            surrounding_data = np.concatenate((before_data, after_data)) if len(before_data) < 3 else before_data\n",
     "pooled surroundings ignore the right part when the left part has >= 3 rows"),
    ("c13-only-first-part-checked", "C13", ["C13"], "skchange/utils/validation/cuts.py",
     "    if not np.all(interval_sizes >= min_size):\n",
     "    if not np.all(interval_sizes[:, 0] >= min_size):\n",
     "only the first part of each cut is checked for spacing (the hand-written predecessor, dropping the pooled-surroundings check of LocalAnomalyScore, turned out to be an equivalent mutant: the inner cost re-validates)"),
    ("c14-mw-bandwidth-zero-accepted", "C14", ["C14"], "skchange/change_detectors/moving_window.py",
     "        check_larger_than(1, self.bandwidth, \"bandwidth\")\n",
     "        check_larger_than(0, self.bandwidth, \"bandwidth\")\n",
     "bandwidth = 0 no longer rejected by the constructor"),
    ("c15-sbs-log-n-plus-one", "C15", ["C15"], "skchange/change_detectors/seeded_binseg.py",
     "        return 2 * p * np.sqrt(np.log(n))\n",
     "        return 2 * p * np.sqrt(np.log(n + 1))\n",
     "default threshold uses log(n+1)"),
    ("c15-intermediate-last-beta", "C15", ["C15"], "skchange/anomaly_detectors/mvcapa.py",
     "    return 0.0, np.diff(penalties, prepend=0.0, append=penalties[-1])\n",
     "    return 0.0, np.diff(penalties, prepend=0.0, append=penalties[-2] if p > 2 else penalties[-1])\n",
     "last per-component term of the intermediate family negative for p > 2"),
    ("c16-affected-prefix-short", "C16", ["C16"], "skchange/anomaly_detectors/mvcapa.py",
     "        new_anomalies.append((start, end, saving_order[: argmax + 1]))\n",
     "        new_anomalies.append((start, end, saving_order[: max(argmax, 1)]))\n",
     "one affected column too few whenever more than one is optimal"),
    ("c17-stat-bound-inclusive", "C17", ["C17"], "skchange/anomaly_detectors/anomalisers.py",
     "            if (segment_stat < self.stat_lower) | (segment_stat > self.stat_upper):\n",
     "            if (segment_stat <= self.stat_lower) | (segment_stat > self.stat_upper):\n",
     "segments whose statistic equals stat_lower are flagged"),
    ("c18-changing-skips-first-row", "C18", ["C18"], "skchange/datasets/generate.py",
     "        x[prev_cpt:next_cpt] = mean + np.sqrt(variance) * x[prev_cpt:next_cpt]\n",
     "        lo = prev_cpt + (1 if prev_cpt > 0 and next_cpt - prev_cpt > 3 else 0)\n        x[lo:next_cpt] = mean + np.sqrt(variance) * x[lo:next_cpt]\n",
     "first row of a later segment longer than 3 keeps the standard-normal draw"),
    ("c05-subset-dense-label-by-position", "C05", ["C05"], "skchange/anomaly_detectors/base.py",
     "            labels[start:end, affected_columns] = i + 1\n",
     "            labels[start:end, sorted(affected_columns)[: len(affected_columns)]] = i + 1 if end - start > 1 or start > 0 else 0\n",
     "a point anomaly at position 0 is not labelled in the dense output"),
    ("c11-sta-series-name", "C11", ["C11"], "skchange/anomaly_detectors/anomalisers.py",
     "        df = pd.concat([pd.DataFrame(X), segments], axis=1)\n",
     "        df = pd.concat([pd.DataFrame(X).rename(columns=str), segments], axis=1).sort_index(axis=1)\n",
     "columns are sorted by name, so a column named after 'labels' alphabetically (e.g. 's', 'va') changes which column the statistic uses"),
    ("c12-sbs-first-column-only", "C12", ["C12", "C07"], "skchange/change_detectors/seeded_binseg.py",
     "        agg_scores = np.sum(scores, axis=1)\n        argmax = np.argmax(agg_scores)\n        amoc_scores[i] = agg_scores[argmax]\n",
     "        agg_scores = np.sum(scores, axis=1)\n        argmax = np.argmax(scores[:, 0])\n        amoc_scores[i] = agg_scores[argmax]\n",
     "maximiser chosen from the first column only (invisible for p = 1)"),
    ("c04-pelt-latest-start", "C04", ["C02", "C04"], "skchange/change_detectors/pelt.py",
     "        latest_start = current_obs_ind - min_segment_shift\n",
     "        latest_start = current_obs_ind - min_segment_shift + (1 if min_segment_length > 2 else 0)\n",
     "last segment may be one sample shorter than min_segment_length when min_segment_length > 2"),
]


def sh(cmd):
    return subprocess.run(cmd, shell=True, capture_output=True, text=True)


def main():
    if sh("git -C /repo status --porcelain").stdout.strip():
        print("ERROR: /repo not clean")
        return 2
    os.makedirs(OUT, exist_ok=True)
    for name, prop, det, f, old, new, note in M:
        path = os.path.join("/repo", f)
        src = open(path).read()
        if src.count(old) != 1:
            print("SKIP (anchor not unique):", name, src.count(old))
            continue
        open(path, "w").write(src.replace(old, new))
        diff = sh("git -C /repo diff").stdout
        sh("git -C /repo checkout -- .")
        d = os.path.join(OUT, name)
        os.makedirs(d, exist_ok=True)
        open(os.path.join(d, "patch.diff"), "w").write(diff)
        json.dump({"property": prop, "detected_by": det, "origin": "hand-written (DESIGN.md section 7 catalogue)", "needs": note},
                  open(os.path.join(d, "meta.json"), "w"), indent=1)
    print("wrote", len(os.listdir(OUT)), "mutants")
    return 0


if __name__ == "__main__":
    sys.exit(main())
