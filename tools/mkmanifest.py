"""Regenerates /verif/MANIFEST.json from the table below (keeps it valid at all times).
Usage: /venv/bin/python tools/mkmanifest.py"""

import json
import os
import subprocess

VERIF = os.path.dirname(os.path.dirname(os.path.abspath(__file__)))

TRUST = (
    "Trusted base: CPython 3.12 / NumPy / pandas / sktime as installed in /venv (numba absent, so kernels run as "
    "plain Python), the reference models in smc/refmodels.py and props/*.py (brute force / unpruned recursions, "
    "cross-checked by ./check --selftest), exact float arithmetic on the small-integer alphabets. Nothing is claimed "
    "beyond the stated bounds (coverage.bounds in the evidence file)."
)

# id -> (category, technique, level text, design ref)
CHECKS = {
    "C02": (
        "exploration",
        "bounded exhaustive enumeration of environment tables (all split-superadditive integer cost tables per "
        "configuration) and of all small-alphabet series, run through the real PELT, vs unpruned optimal partitioning",
        "Every execution in a stated finite space (all slack vectors over {0,1}/{0,1,2} for each (n, msl, penalty, p, "
        "variant), all <=d-deviation tables for larger n, all series over a 3-symbol alphabet) is run on the real "
        "implementation and compared per prefix with the exact optimum; value-based oracle accepts any minimiser.",
        "DESIGN.md §5 C02",
    ),
    "C01": (
        "exploration",
        "bounded exhaustive enumeration of all data matrices over small alphabets x 16 cost variants x all admissible "
        "intervals x batch shapes, real evaluate vs exact rational-arithmetic definition",
        "Every matrix of the stated spaces is fitted and every admissible interval evaluated alone, in full batches in both "
        "orders, in sandwich batches, in ordered pairs and again afterwards (also after a call that raised, and with an earlier result still held); "
        "values compared with the definition computed from X[s:e] in Fractions; plus all ~45 000 / ~180 000 intervals of one n = 300 / 600 series in a single call vs chunked calls.",
        "DESIGN.md §5 C01",
    ),
    "C06": (
        "exploration",
        "bounded exhaustive enumeration of all data matrices x cost variants x all 3-/4-point cuts through the three "
        "adapters and the direct scores, vs the defining cost differences; all {0,1,2} cost tables for table costs",
        "Every admissible cut of every matrix in the stated spaces is scored by every adapter(cost) composition and compared "
        "with the defining identity; inequalities of the statement are checked on every cut.",
        "DESIGN.md §5 C06",
    ),
    "C07": (
        "model_checking",
        "bounded exhaustive enumeration of environment tables/data through the real detector + complete exploration of "
        "the nondeterministic greedy specification per case (refinement / trace-membership check)",
        "For every case the specification's state graph (all tie-breaks) is explored completely and the implementation's "
        "output must be one of its outputs; interval construction and per-interval maxima are checked on every case.",
        "DESIGN.md §5 C07",
    ),
    "C08": (
        "exploration",
        "bounded exhaustive enumeration of (n, bandwidth) with an encoding score, of all per-position level tables "
        "relative to the read-back threshold, and of all small-alphabet series with reversal",
        "Every execution in the stated finite spaces runs the real MovingWindow; window placement is decoded from the "
        "scores, detections compared with an independent run detector, reversal checked with margin gating.",
        "DESIGN.md §5 C08",
    ),
    "C09": (
        "model_checking",
        "bounded exhaustive enumeration of local-score tables/data through the real detector + complete exploration of "
        "the nondeterministic greedy-with-overlap specification per case (refinement check)",
        "As C07 with 4-point cuts: one-hot / poison tables decide the admissible inner intervals, all small tables decide "
        "row maxima, refinement against the complete specification graph decides the greedy selection.",
        "DESIGN.md §5 C09",
    ),
    "C13": (
        "exploration",
        "exhaustive enumeration of the integer box [-2, n+2]^k for every scorer, several integer dtypes, mixed batches "
        "and malformed arrays, vs a validity predicate written from the statement",
        "Every tuple of the box is submitted to the real evaluate: invalid ones must raise ValueError, valid ones must "
        "return the value obtained from exactly the rows they describe.",
        "DESIGN.md §5 C13",
    ),
    "C04": (
        "exploration",
        "bounded exhaustive enumeration of detector x hyper-parameter grid x all small-alphabet data sets, plus the table "
        "families of C02/C03/C07/C08/C09 re-run with the well-formedness invariant as only oracle",
        "Every output produced in the stated finite spaces is checked against the well-formedness invariant written from the statement.",
        "DESIGN.md §5 C04",
    ),
    "C05": (
        "exploration",
        "exhaustive enumeration of all valid sparse outputs for small n (changepoint subsets, disjoint interval sets, column "
        "assignments) x index kinds, and of detector runs on all small-alphabet series, vs a positional labelling model",
        "sparse_to_dense / dense_to_sparse / transform are executed on every element of the stated spaces and compared with the "
        "positional model and the exact round trip.",
        "DESIGN.md §5 C05",
    ),
    "C10": (
        "model_checking",
        "explicit-state breadth-first search over call histories of real objects (all event sequences up to a depth bound, "
        "states de-duplicated on a structural hash of object graph + model + module globals), every transition compared "
        "with a constructor-built pristine reference",
        "All histories up to the depth bound over 47 worlds (detectors, scorers, shared scorers and wrappers, two instances per class, two narrow deep worlds, "
        "nested set_params, clone, update, a caller-mutated buffer, a call that fails half-way) are executed on the implementation; each "
        "transition is an implementation execution validated against the boring reference model (hyper-parameters, last fit data, "
        "fitted flag); event chains without intermediate state copies re-examine results the caller still holds.",
        "DESIGN.md §5 C10",
    ),
    "C11": (
        "exploration",
        "bounded exhaustive enumeration of detector/scorer x container x dtype x index kind x column labels x entry-point "
        "pipeline x all small-alphabet series, differential against the canonical representation",
        "Every representation of every series in the stated spaces is run through the real entry points and compared with the "
        "canonical float64 DataFrame run.",
        "DESIGN.md §5 C11",
    ),
    "C14": (
        "exploration",
        "exhaustive enumeration of the full Cartesian hyper-parameter grid per detector x scorers x data lengths around the "
        "minimum x p x NaN x data menu (plus all (0,4) series for valid cells), three-valued oracle from the docstrings",
        "Every grid cell is constructed, fitted and run; must-raise cells must give ValueError, must-run cells must complete "
        "well-formed (or end in one of the two documented errors); unspecified cells are counted, not judged.",
        "DESIGN.md §5 C14",
    ),
    "C12": (
        "exploration",
        "bounded exhaustive enumeration of metamorphic pairs (every small-alphabet matrix x every column permutation, "
        "shift, scale, reversal) through all scorers on all cuts and all applicable detectors, with independent tie analysis",
        "Every pair in the stated spaces is executed; continuous outputs compared with a magnitude-derived tolerance, discrete "
        "outputs exactly unless a demonstrated near-tie excuses the mismatch (counted).",
        "DESIGN.md §5 C12",
    ),
    "C15": (
        "exploration",
        "exhaustive enumeration of the (detector, n, p, scale, k, bandwidth, M) grid for fitted thresholds/penalties and the "
        "MVCAPA penalty families vs closed forms, and of all small-alphabet series for tuned thresholds and PELT penalty monotonicity",
        "Every grid cell / series in the stated spaces is evaluated on the real code and compared with the documented formulas, "
        "the quantile bracket and the monotonicity claim.",
        "DESIGN.md §5 C15",
    ),
    "C16": (
        "exploration",
        "exhaustive enumeration of all assignments of saving levels to columns (5^p, p<=4/6) x penalties x anomaly kinds through "
        "the real MVCAPA with table savings, and of small multivariate data sets, vs the sorted-prefix optimum",
        "Every assignment is run through predict and transform; affected columns compared with the optimal sparse subset.",
        "DESIGN.md §5 C16",
    ),
    "C17": (
        "exploration",
        "exhaustive enumeration of every changepoint subset (user-defined fixed detector) x every (-2,0,2) series x statistics "
        "x bounds, and of real change detectors on all (0,4) series, vs segment-wise thresholding",
        "Every case is run through the real StatThresholdAnomaliser and compared with the segment-wise reference; the user's "
        "detector object is checked for being untouched.",
        "DESIGN.md §5 C17",
    ),
    "C18": (
        "exploration",
        "exhaustive enumeration of (n, p, seed, position list, parameter shape) for the four generators, differential against "
        "the generator's own standard-normal draw, plus a fixed menu of inconsistent arguments",
        "Every case of the stated spaces is generated twice and compared with mean + sqrt(variance) x standard-normal draw.",
        "DESIGN.md §5 C18",
    ),
    "C03": (
        "exploration",
        "bounded exhaustive enumeration of sub-additive saving tables x point-saving vectors x penalty branches "
        "through the real CAPA/MVCAPA (user-defined table savings, callable penalties), vs an unpruned recursion over all anomaly sets",
        "Every case of the stated finite spaces is executed on the real detectors; cumulative scores are compared per "
        "prefix with the exact optimum, the reported anomalies are re-evaluated, admissibility and the ignore flag are checked.",
        "DESIGN.md §5 C03",
    ),
}

NOT_YET = {}


def main():
    props = [json.loads(line) for line in open(os.path.join(VERIF, "properties.jsonl"))]
    checks = []
    na = []
    for p in props:
        pid = p["id"]
        if pid in CHECKS and os.path.exists(os.path.join(VERIF, "props", f"{pid.lower()}.py")):
            cat, tech, text, ref = CHECKS[pid]
            checks.append(
                {
                    "property_id": pid,
                    "quick_cmd": f"./check {pid} --tier quick",
                    "thorough_cmd": f"./check {pid} --tier thorough",
                    "evidence_file": f"/verif/evidence/{pid}.json",
                    "replay_cmd_template": "./check --replay {path}",
                    "engine": "smc",
                    "level_claimed": {"category": cat, "text": text, "design_ref": ref},
                    "level_note": TRUST,
                    "technique": tech,
                }
            )
        else:
            na.append(
                {
                    "property_id": pid,
                    "reason": NOT_YET.get(
                        pid, "check not built yet in this session (planned: bounded exhaustive exploration, DESIGN.md §5); not claimed until its command exists"
                    ),
                }
            )
    try:
        commits = subprocess.run(
            ["git", "-C", "/repo", "log", "--format=%h %s", "--grep=^hook:"], capture_output=True, text=True
        ).stdout.strip().splitlines()
    except Exception:
        commits = []
    man = {
        "version": 1,
        "setup_cmd": "./check --selftest",
        "hooks": {
            "guard": "SKCHANGE_VERIF",
            "enable": "no source hooks are needed: every property is observed through the public API (table/encoding/recording scorers are user-defined subclasses living in /verif); the guard name is reserved and unused",
            "baseline_off_cmd": "/venv/bin/python /verif/tools/baseline.py /repo",
            "source_commits": [c.split()[0] for c in commits],
            "add_only": True,
        },
        "engines": [
            {
                "name": "smc",
                "path": "/verif/smc",
                "serves_properties": [c["property_id"] for c in checks],
                "kind_free_text": "hand-written explicit-state / bounded-exhaustive explorer for Python: input lattices (Mode A), environment-answer tables through user-defined scorers (Mode B), history BFS over real objects with structural state hashing (Mode C); 16-process static sharding, no sampling, no wall-clock truncation",
            }
        ],
        "checks": checks,
        "not_applicable": na,
        "notes": "Checks import skchange from /repo's working tree (editable install), so they always run the current sources. known_findings.json lists open findings and fixed defects; replays/ holds violation artefacts.",
    }
    try:
        import jsonschema

        jsonschema.validate(man, json.load(open("/root/.vp/MANIFEST.schema.json")))
    except ImportError:
        pass
    with open(os.path.join(VERIF, "MANIFEST.json"), "w") as f:
        json.dump(man, f, indent=1)
    print(f"MANIFEST.json: {len(checks)} checks, {len(na)} not claimed")


if __name__ == "__main__":
    main()
