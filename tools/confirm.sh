#!/bin/bash
# Confirm a candidate seeded change that lives (uncommitted) in a scratch worktree of /repo.
# Usage: tools/confirm.sh <worktree> <Cxx> [<Cyy> ...]
#   1. the diff is taken from the worktree (skchange/ only) and must apply to a clean tree
#   2. the repository's suite must still pass with it (tools/baseline.py <worktree>)
#   3. <worktree>/demo.py must exit 1 with the change and 0 without it
#   4. each named quick check is run against the patched sources (VERIF_SRC=<worktree>); exit 1 = caught
# Nothing is written to /repo; evidence of these runs goes to .scratch/.
set -u
WT=$1; shift
cd "$(dirname "$0")/.."
D=$(mktemp /tmp/confirm.XXXXXX.diff)
git -C "$WT" diff -- skchange > "$D"
echo "patch: $(wc -l < "$D") lines -> $D"
echo -n "baseline with change: "; /venv/bin/python tools/baseline.py "$WT" | head -4
( cd "$WT" && timeout 300 /venv/bin/python demo.py > /tmp/confirm.demo_with.txt 2>&1; echo "demo with change: exit $?"; tail -3 /tmp/confirm.demo_with.txt )
git -C "$WT" checkout -- skchange
( cd "$WT" && timeout 300 /venv/bin/python demo.py > /tmp/confirm.demo_without.txt 2>&1; echo "demo without change: exit $?" )
git -C "$WT" apply "$D" || echo "PATCH DOES NOT RE-APPLY"
for c in "$@"; do
  VERIF_SRC="$WT" ./check "$c" --tier quick > /tmp/confirm.$c.txt 2>&1; rc=$?
  echo "check $c on patched sources: exit $rc  $(grep -c '^VIOLATION' /tmp/confirm.$c.txt) violation line(s)"
  grep '^VIOLATION' /tmp/confirm.$c.txt | head -3
  tail -1 /tmp/confirm.$c.txt
done
