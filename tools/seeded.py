"""Mutation driver: applies each seeded change (/verif/seeded/<id>/patch.diff) to /repo,
runs the quick (or, with --tier thorough, thorough) check(s) named in its meta.json, expects a
VIOLATION (exit 1), and always reverts /repo afterwards (git checkout -- .).

Usage:  /venv/bin/python tools/seeded.py [--dir seeded|mutants] [--tier quick|thorough] [--all-checks] [--baseline] [id ...]
Evidence files written during these runs are restored from git afterwards (evidence must come
from the unchanged tree).
"""

import json
import os
import subprocess
import sys
import time

VERIF = os.path.dirname(os.path.dirname(os.path.abspath(__file__)))
SEEDED = os.path.join(VERIF, "seeded")


def sh(cmd, **kw):
    return subprocess.run(cmd, shell=True, capture_output=True, text=True, **kw)


def main():
    args = sys.argv[1:]
    tier = "quick"
    allchecks = False
    baseline = False
    global SEEDED
    ids = []
    while args:
        a = args.pop(0)
        if a == "--tier":
            tier = args.pop(0)
        elif a == "--all-checks":
            allchecks = True
        elif a == "--baseline":
            baseline = True
        elif a == "--dir":
            SEEDED = os.path.join(VERIF, args.pop(0))
        else:
            ids.append(a)
    ids = ids or sorted((d for d in os.listdir(SEEDED) if os.path.exists(os.path.join(SEEDED, d, "patch.diff"))),
                        key=lambda x: (int("".join(ch for ch in x.split("-")[0] if ch.isdigit()) or 0), x))
    if sh("git -C /repo status --porcelain").stdout.strip():
        print("ERROR: /repo has uncommitted changes; refusing to run")
        return 2
    rows = []
    for i in ids:
        d = os.path.join(SEEDED, i)
        meta = json.load(open(os.path.join(d, "meta.json")))
        checks = meta.get("detected_by") or [meta["property"]]
        if allchecks:
            checks = sorted({json.loads(line)["id"] for line in open(os.path.join(VERIF, "properties.jsonl"))})
        r = sh(f"git -C /repo apply {os.path.join(d, 'patch.diff')}")
        if r.returncode != 0:
            rows.append((i, "PATCH-DOES-NOT-APPLY", r.stderr.strip()[:200]))
            sh("git -C /repo checkout -- .")
            continue
        try:
            res = {}
            if baseline:
                r = sh("/venv/bin/python tools/baseline.py /repo", cwd=VERIF)
                res["baseline"] = (r.returncode, 0, 0, [r.stdout.strip().splitlines()[0] if r.stdout.strip() else "?"])
            for c in checks:
                t0 = time.time()
                r = sh(f"./check {c} --tier {tier}", cwd=VERIF)
                viol = [line for line in r.stdout.splitlines() if line.startswith("VIOLATION")]
                kinds = sorted({line.strip() for line in r.stdout.splitlines() if line.strip().startswith("kind=")})
                res[c] = (r.returncode, len(viol), round(time.time() - t0, 1), kinds[:3])
        finally:
            sh("git -C /repo checkout -- .")
        caught = [c for c, v in res.items() if c != "baseline" and v[0] == 1 and v[1] > 0]
        rows.append((i, "CAUGHT by " + ",".join(caught) if caught else "MISSED", {c: v[:3] for c, v in res.items()}))
        print(rows[-1], flush=True)
        for c, v in res.items():
            for k in v[3]:
                print("     ", c, k[:160])
    sh("git -C %s checkout -- evidence" % VERIF)
    missed = [r for r in rows if not r[1].startswith("CAUGHT")]
    print(f"\n{len(rows) - len(missed)}/{len(rows)} seeded changes caught; missed: {[r[0] for r in missed]}")
    return 1 if missed else 0


if __name__ == "__main__":
    sys.exit(main())
