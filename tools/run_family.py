"""Run only the shards of one check whose kind is in a given list (used to try new thorough-tier families without the
hours of the whole thorough check).  Not an evidence-producing command: prints a summary line only.
Usage: /venv/bin/python tools/run_family.py C02 thorough long72 [kind ...]"""
import importlib, os, sys, time
sys.path.insert(0, os.path.dirname(os.path.dirname(os.path.abspath(__file__))))
from smc import core  # noqa: E402

pid, tier, kinds = sys.argv[1], sys.argv[2], sys.argv[3:]
mod = importlib.import_module("props." + pid.lower())
sh = [s for s in mod.shards(tier, int(os.environ.get("VERIF_SEED", "0"))) if s[0] in kinds]
t0 = time.time()
acc = core.explore(mod.__name__, sh)
print(f"{pid} tier={tier} kinds={kinds} shards={len(sh)} evaluations={acc.evaluations} violations={len(acc.violations)} wall={time.time() - t0:.1f}s")
for v in acc.violations[:5]:
    print("  ", v["kind"], str(v["case"])[:300], v["msg"][:200])
sys.exit(1 if acc.violations else 0)
