"""Print python sources with docstrings and blank lines removed (reading aid)."""
import ast, sys
def strip(path):
    src=open(path).read()
    tree=ast.parse(src)
    lines=src.split('\n')
    kill=set()
    for node in ast.walk(tree):
        if isinstance(node,(ast.FunctionDef,ast.ClassDef,ast.Module)):
            b=node.body
            if b and isinstance(b[0],ast.Expr) and isinstance(getattr(b[0],'value',None),ast.Constant) and isinstance(b[0].value.value,str):
                for i in range(b[0].lineno-1,b[0].end_lineno):
                    kill.add(i)
    out=[]
    for i,l in enumerate(lines):
        if i in kill or not l.strip(): continue
        out.append(f"{i+1:4d} {l}")
    print("#####",path); print('\n'.join(out))
for p in sys.argv[1:]:
    strip(p)
