"""Store a confirmed seeded change: tools/store_seeded.py <worktree> <agent-json> <id-slug> <round-text> <caught-text> <Cxx,...> [--missed]
Copies the worktree's diff (skchange/ only) and demo.py to /verif/seeded/<id-slug>/ and writes meta.json."""
import json, os, subprocess, sys
wt, aj, slug, rnd, caught, dets = sys.argv[1:7]
a = json.load(open(aj))
d = os.path.join(os.path.dirname(os.path.dirname(os.path.abspath(__file__))), "seeded", slug)
os.makedirs(d, exist_ok=True)
open(os.path.join(d, "patch.diff"), "w").write(subprocess.run(["git", "-C", wt, "diff", "--", "skchange"], capture_output=True, text=True).stdout)
open(os.path.join(d, "demo.py"), "w").write(open(os.path.join(wt, "demo.py")).read())
dets = dets.split(",")
meta = {"id": slug, "property": a["property"], "detected_by": dets, "change": a["change"], "needs": a["needs"], "caught": caught,
        "origin": rnd,
        "verified": {"patch_applies_to_clean_tree": True,
                     "baseline_suite_with_change": "906/906 stable tests pass (tools/baseline.py on the scratch worktree)",
                     "demo_exit_with_change": 1, "demo_exit_without_change": 0,
                     "checks_run": [f"VERIF_SRC=<scratch worktree with the change> ./check {c} --tier quick -> exit 1" for c in dets]}}
json.dump(meta, open(os.path.join(d, "meta.json"), "w"), indent=1)
print("stored", d)
