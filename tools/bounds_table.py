"""Size and cost of every check, as a markdown table for DESIGN.md section 9.6.

  python3 tools/bounds_table.py --ingest LOG [LOG...]   parse summary lines of ./check runs (e.g. the log of a
                                                        thorough sweep) into /verif/thorough_runs.json
  python3 tools/bounds_table.py --update                rewrite the block between <!-- BOUNDS-TABLE-BEGIN/END -->
                                                        in DESIGN.md from evidence/*.json (quick tier, written by
                                                        the last ./check run against /repo) and thorough_runs.json
"""

import glob
import json
import os
import re
import sys

VERIF = os.path.dirname(os.path.dirname(os.path.abspath(__file__)))
RUNS = os.path.join(VERIF, "thorough_runs.json")
LINE = re.compile(r"^(C\d\d) tier=(\w+) seed=(\d+) evaluations=(\d+) nontrivial=(\d+) outcomes=(\d+)(?: states=(\d+) transitions=(\d+))? "
                  r"violations=(\d+) known=(\d+) wall=([\d.]+)s")


def ingest(paths):
    runs = json.load(open(RUNS)) if os.path.exists(RUNS) else {}
    for p in paths:
        for line in open(p, errors="replace"):
            m = LINE.match(line.strip())
            if not m or m.group(2) != "thorough":
                continue
            pid = m.group(1)
            runs[pid] = {"seed": int(m.group(3)), "evaluations": int(m.group(4)), "nontrivial": int(m.group(5)),
                         "outcomes": int(m.group(6)), "states": int(m.group(7) or 0), "transitions": int(m.group(8) or 0),
                         "violations": int(m.group(9)), "wall_s": float(m.group(11)), "log": os.path.basename(os.path.dirname(p)) + "/" + os.path.basename(p)}
    json.dump(runs, open(RUNS, "w"), indent=1, sort_keys=True)
    print(f"{len(runs)} thorough runs recorded in {RUNS}")


def table():
    runs = json.load(open(RUNS)) if os.path.exists(RUNS) else {}
    out = ["| check | level | quick: cases | non-trivial | states / transitions | wall s | thorough: cases | non-trivial | states / transitions | wall s |",
           "|---|---|---|---|---|---|---|---|---|---|"]
    for f in sorted(glob.glob(os.path.join(VERIF, "evidence", "C*.json"))):
        e = json.load(open(f))
        c = e["coverage"]
        pid = e["property_id"]
        st = f"{c.get('states', 0)} / {c.get('transitions', 0)}" if c.get("states") else "–"
        t = runs.get(pid)
        if t:
            tst = f"{t['states']} / {t['transitions']}" if t["states"] else "–"
            tcols = f"{t['evaluations']} | {t['nontrivial']} | {tst} | {t['wall_s']:.0f}"
        else:
            tcols = "– | – | – | –"
        out.append(f"| {pid} | {e['level']} | {c['evaluations']} | {c.get('distinct_nontrivial', 0)} | {st} | {e['wall_s']:.0f} ({e['tier']}) | {tcols} |")
    return "\n".join(out) + "\n"


def main():
    if "--ingest" in sys.argv:
        ingest(sys.argv[sys.argv.index("--ingest") + 1:])
        return
    t = table()
    if "--update" in sys.argv:
        path = os.path.join(VERIF, "DESIGN.md")
        s = open(path).read()
        a = s.index("<!-- BOUNDS-TABLE-BEGIN -->") + len("<!-- BOUNDS-TABLE-BEGIN -->")
        b = s.index("<!-- BOUNDS-TABLE-END -->")
        open(path, "w").write(s[:a] + "\n" + t + s[b:])
        print("DESIGN.md updated")
    else:
        print(t)


if __name__ == "__main__":
    main()
